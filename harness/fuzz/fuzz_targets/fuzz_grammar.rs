#![no_main]
//! C20 (thorough tier): coverage-guided search over grammar / schema / regex text plus an API
//! walk.  The semantic oracle lives in the target: no panic may escape the public API, a failed
//! engine keeps failing, masks never carry a bit at or above the vocabulary size, and legal calls
//! on a built constraint never fail with an internal panic.
use libfuzzer_sys::fuzz_target;
use llguidance::api::{ParserLimits, TopLevelGrammar};
use llguidance::toktrie::{ApproximateTokEnv, InferenceCapabilities};
use llguidance::{Matcher, ParserFactory};

fn limits(tight: bool) -> ParserLimits {
    let mut l = ParserLimits::default();
    if tight {
        l.max_items_in_row = 50;
        l.initial_lexer_fuel = 20_000;
        l.step_lexer_fuel = 5_000;
        l.step_max_items = 500;
        l.max_lexer_states = 200;
        l.max_grammar_size = 2_000;
    } else {
        // keep single executions short: the default limits are checked by the subprocess tier
        l.initial_lexer_fuel = 200_000;
        l.step_lexer_fuel = 40_000;
        l.step_max_items = 5_000;
        l.max_lexer_states = 5_000;
        l.max_grammar_size = 50_000;
    }
    l
}

fuzz_target!(|data: &[u8]| {
    if data.len() < 4 {
        return;
    }
    let kind = data[0] % 3;
    let tight = data[1] & 1 == 1;
    let n_ops = (data[2] % 12) as usize;
    let split = data.len().saturating_sub(n_ops * 2).max(3);
    let text = String::from_utf8_lossy(&data[3..split]).to_string();
    let ops = &data[split..];
    let env = ApproximateTokEnv::single_byte_env();
    let mut f = match ParserFactory::new(&env, InferenceCapabilities::default(), &[]) {
        Ok(f) => f,
        Err(_) => return,
    };
    f.quiet();
    *f.limits_mut() = limits(tight);
    let top = match kind {
        0 => TopLevelGrammar::from_lark(text),
        1 => match TopLevelGrammar::from_tagged_str("json", &text) {
            Ok(t) => t,
            Err(_) => return,
        },
        _ => TopLevelGrammar::from_regex(&text),
    };
    let mut m = Matcher::new(f.create_parser(top));
    let n = env.tok_trie().vocab_size();
    if m.is_error() {
        assert!(m.compute_mask().is_err() && m.is_error() && m.is_stopped(), "a failed engine must keep failing");
        return;
    }
    let mut committed = 0usize;
    for ch in ops.chunks(2) {
        if m.is_error() {
            assert!(m.compute_mask().is_err(), "a failed engine must keep failing");
            break;
        }
        let (k, v) = (ch[0], *ch.get(1).unwrap_or(&0));
        match k % 6 {
            0 | 1 | 2 => {
                if m.is_stopped() {
                    continue;
                }
                match m.compute_mask() {
                    Ok(mask) => {
                        for (w, d) in mask.as_slice().iter().enumerate() {
                            for b in 0..32 {
                                assert!(!(w * 32 + b >= n && d & (1 << b) != 0), "mask bit beyond the vocabulary");
                            }
                        }
                        let ids = mask.to_list();
                        if ids.is_empty() {
                            continue;
                        }
                        let t = ids[v as usize % ids.len()];
                        match m.consume_token(t) {
                            Ok(()) => committed += 1,
                            Err(e) => assert!(!e.to_string().starts_with("panic"), "legal commit failed with an internal panic: {e}"),
                        }
                    }
                    Err(e) => assert!(!e.to_string().starts_with("panic"), "mask failed with an internal panic: {e}"),
                }
            }
            3 => {
                let seq = [v as u32 % n as u32, (v as u32 * 7 + 1) % n as u32];
                if let Err(e) = m.validate_tokens(&seq) {
                    assert!(!e.to_string().starts_with("panic"), "validate failed with an internal panic: {e}");
                }
            }
            4 => {
                if committed > 0 {
                    let r = 1 + v as usize % committed;
                    match m.rollback(r) {
                        Ok(()) => committed -= r,
                        Err(e) => assert!(!e.to_string().starts_with("panic"), "rollback failed with an internal panic: {e}"),
                    }
                }
            }
            _ => {
                // arbitrary token id: may be rejected, must not panic out of the API
                let _ = m.consume_token(u32::from_le_bytes([v, k, v, 0]));
            }
        }
    }
});
