#![no_main]
//! C16 (thorough tier): raw bytes -> vocabulary + acceptor + start prefix; add_bias must equal
//! "test every token separately" and never set a bit at or above the vocabulary size.
use libfuzzer_sys::fuzz_target;
use toktrie::recognizer::{FunctionalRecognizer, StackRecognizer};
use toktrie::{TokRxInfo, TokTrie};

struct Acc {
    // 4 states x 256 bytes -> next state or 255 (reject)
    t: Vec<u8>,
}
impl FunctionalRecognizer<u8> for Acc {
    fn initial(&self) -> u8 {
        0
    }
    fn try_append(&self, s: u8, b: u8) -> Option<u8> {
        let x = self.t[(s as usize % 4) * 8 + (b as usize % 8)];
        if x == 255 || (b % 8 != b && b > 0x7f && x % 2 == 1) {
            None
        } else {
            Some(x % 4)
        }
    }
}

fuzz_target!(|data: &[u8]| {
    if data.len() < 40 {
        return;
    }
    let acc = Acc { t: data[..32].iter().map(|b| if b % 5 == 0 { 255 } else { *b }).collect() };
    let start_len = (data[32] % 4) as usize;
    let mut words: Vec<Vec<u8>> = vec![];
    let mut i = 33;
    while i < data.len() && words.len() < 200 {
        let l = (data[i] % 9) as usize;
        i += 1;
        let e = (i + l).min(data.len());
        words.push(data[i..e].to_vec());
        i = e;
    }
    if words.is_empty() {
        return;
    }
    let n = words.len();
    let trie = TokTrie::from(&TokRxInfo::new(n as u32, 0), &words);
    let start: Vec<u8> = words[0].iter().take(start_len).cloned().collect();
    let mut rec = StackRecognizer::from(acc);
    let mut set = trie.alloc_token_set();
    trie.add_bias(&mut rec, &mut set, &start);
    let accepts = |bytes: &[u8]| {
        let a = rec.recognizer();
        let mut s = a.initial();
        for &b in bytes {
            match a.try_append(s, b) {
                Some(t) => s = t,
                None => return false,
            }
        }
        true
    };
    for (id, w) in words.iter().enumerate() {
        let want = !w.is_empty() && ((w.starts_with(&start) && accepts(&w[start.len()..])) || (!start.is_empty() && start.starts_with(w)));
        assert_eq!(set.is_allowed(id as u32), want, "token {} {:?} start {:?}", id, w, start);
        assert_eq!(trie.token(id as u32), &w[..]);
    }
    for (wi, d) in set.as_slice().iter().enumerate() {
        for b in 0..32 {
            assert!(!(wi * 32 + b >= n && d & (1 << b) != 0), "bit at or above the vocabulary size");
        }
    }
});
