use llguidance::api::{GrammarInit, ParserLimits, TopLevelGrammar};
fn main() {
    let a: Vec<String> = std::env::args().collect();
    let txt = std::fs::read_to_string(&a[1]).unwrap();
    let top = TopLevelGrammar::from_lark_or_grammar_list(&txt).unwrap();
    let v = llgv::walk::byte_vocab();
    let (g, _l) = GrammarInit::Serialized(top).to_internal(Some(v.env.clone()), ParserLimits::default()).unwrap();
    println!("{}", g.to_string(None));
    let o = g.optimize();
    println!("--- optimized\n{}", o.to_string(None));
}
