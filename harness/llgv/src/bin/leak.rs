use proptest::strategy::{Strategy, ValueTree};
use proptest::test_runner::{Config, RngSeed, TestRunner};
fn rss() -> usize {
    let s = std::fs::read_to_string("/proc/self/statm").unwrap();
    s.split(' ').nth(1).unwrap().parse::<usize>().unwrap() * 4
}
fn main() {
    let mut runner = TestRunner::new(Config { rng_seed: RngSeed::Fixed(1), ..Config::default() });
    let strat = llgv::js::schema_strategy(llgv::js::Profile::Full);
    let r0 = rss();
    let mut worst = (0usize, String::new());
    for i in 0..3000 {
        let s = strat.new_tree(&mut runner).unwrap().current();
        let before = rss();
        let mut s2 = s.clone();
        s2.as_object_mut().unwrap().remove("x-guidance");
        if let Ok(v) = jsonschema::options().should_validate_formats(true).build(&s2) {
            let _ = v.is_valid(&serde_json::json!({"a":[[]]}));
        }
        let d = rss().saturating_sub(before);
        if d > worst.0 { worst = (d, s.to_string()); }
        if i % 500 == 0 { println!("{} {} kB", i, rss() - r0); }
    }
    println!("end {} kB; worst single growth {} kB for {}", rss() - r0, worst.0, &worst.1[..worst.1.len().min(600)]);
}
