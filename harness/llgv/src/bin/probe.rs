//! ad-hoc probe: `probe <schema-json> <text>...` prints whether each text is admitted as complete
use llgv::engine::{factory, matcher, GrammarSpec};
fn main() {
    let a: Vec<String> = std::env::args().collect();
    let schema: serde_json::Value = serde_json::from_str(&a[1]).unwrap();
    let v = llgv::walk::byte_vocab();
    let f = factory(&v);
    let m = matcher(&f, &GrammarSpec::Json(schema));
    if let Some(e) = m.get_error() {
        println!("compile error: {}", e.lines().next().unwrap_or(""));
        return;
    }
    for t in &a[2..] {
        let mut toks: Vec<u32> = t.bytes().map(|b| b as u32).collect();
        toks.push(v.eos[0]);
        let n = m.clone().validate_tokens(&toks).unwrap();
        println!("{:?}: {} ({} of {})", t, n == toks.len(), n, toks.len());
    }
}
