//! ad-hoc probe: `probe <schema-json> <text>...` prints whether each text is admitted as complete
use llgv::engine::{factory, matcher, GrammarSpec};
fn main() {
    let a: Vec<String> = std::env::args().collect();
    let v = llgv::walk::byte_vocab();
    let f = if std::env::var("SLICES").is_ok() {
        llgv::engine::factory_ext(&v, &llguidance::earley::SlicedBiasComputer::general_slices(), llguidance::toktrie::InferenceCapabilities::default(), None).unwrap()
    } else {
        factory(&v)
    };
    let g = if let Some(path) = a[1].strip_prefix("lark:") {
        GrammarSpec::Lark(std::fs::read_to_string(path).unwrap())
    } else if let Some(path) = a[1].strip_prefix("jsonfile:") {
        GrammarSpec::Json(serde_json::from_str(&std::fs::read_to_string(path).unwrap()).unwrap())
    } else {
        GrammarSpec::Json(serde_json::from_str(&a[1]).unwrap())
    };
    let m = matcher(&f, &g);
    if let Some(e) = m.get_error() {
        if std::env::var("FULL").is_ok() {
            println!("compile error: {}", e);
        } else {
            println!("compile error: {}", e.lines().next().unwrap_or(""));
        }
        return;
    }
    for t in &a[2..] {
        let mut toks: Vec<u32> = t.bytes().map(|b| b as u32).collect();
        toks.push(v.eos[0]);
        let n = m.clone().validate_tokens(&toks).unwrap();
        println!("{:?}: {} ({} of {})", t, n == toks.len(), n, toks.len());
    }
}
