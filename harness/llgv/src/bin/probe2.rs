//! ad-hoc probe: `probe2 <lark-file> <extra-token>... -- <prefix-token-text>...`
//! vocabulary = 256 bytes + extra tokens + <|eos|>; commits the prefix tokens, then prints
//! mask / validate / commit for every extra token and the ff tokens.
use llgv::engine::{factory, matcher, GrammarSpec};
use llgv::util::B;
use llgv::vocab::VocabSpec;
fn main() {
    let a: Vec<String> = std::env::args().collect();
    let g = GrammarSpec::Lark(std::fs::read_to_string(&a[1]).unwrap());
    let sep = a.iter().position(|x| x == "--").unwrap_or(a.len());
    let extra: Vec<B> = a[2..sep].iter().map(|s| B(s.as_bytes().to_vec())).collect();
    let v = VocabSpec::byte_with(extra.clone()).build().unwrap();
    let f = factory(&v);
    let mut m = matcher(&f, &g);
    if let Some(e) = m.get_error() {
        println!("compile error: {}", e.lines().next().unwrap_or(""));
        return;
    }
    let tid = |s: &str| v.trie().token_id(s.as_bytes()).unwrap_or_else(|| panic!("no token {:?}", s));
    for p in a.iter().skip(sep + 1) {
        let t = tid(p);
        println!("commit {:?} ({}) -> {:?}", p, t, m.consume_token(t).map_err(|e| llgv::engine::short_err(&e.to_string())));
    }
    println!("ff_tokens={:?} ff_bytes={:?} accepting={:?} stopped={}", m.compute_ff_tokens(), String::from_utf8_lossy(&m.compute_ff_bytes()), m.is_accepting(), m.is_stopped());
    let mask = m.compute_mask();
    if let Err(e) = &mask {
        println!("MASK ERROR: {}", llgv::engine::short_err(&e.to_string()));
    }
    let mut names: Vec<String> = a[2..sep].to_vec();
    for b in [b'a', b'b', b'X', b';', b'!', b'<', b'0'] {
        names.push((b as char).to_string());
    }
    for s in names {
        let t = tid(&s);
        let in_mask = mask.as_ref().map(|x| x.is_allowed(t)).ok();
        let val = m.clone().validate_tokens(&[t]).map_err(|e| llgv::engine::short_err(&e.to_string()));
        let mut c = m.deep_clone();
        let com = c.consume_token(t).map_err(|e| llgv::engine::short_err(&e.to_string()));
        println!("{:?} ({}): mask={:?} validate={:?} commit={:?} then ff_bytes={:?} stopped={}", s, t, in_mask, val, com, String::from_utf8_lossy(&c.compute_ff_bytes()), c.is_stopped());
    }
    let eos = v.eos[0];
    println!("EOS: mask={:?} validate={:?} commit={:?}", mask.as_ref().map(|x| x.is_allowed(eos)).ok(), m.clone().validate_tokens(&[eos]).map_err(|e| llgv::engine::short_err(&e.to_string())), m.deep_clone().consume_token(eos).map_err(|e| llgv::engine::short_err(&e.to_string())));
}
