//! ad-hoc probe: consume_tokens / try_consume_tokens / validate_tokens with an EOS in the middle
use llgv::engine::{factory, matcher, GrammarSpec};
fn main() {
    let v = llgv::walk::byte_vocab();
    let f = factory(&v);
    let g = GrammarSpec::Lark(std::env::args().nth(1).unwrap());
    let e = v.eos[0];
    let a = b'a' as u32;
    for seq in [vec![a, e, a], vec![a, e, e], vec![a, e], vec![e, a]] {
        let mut m = matcher(&f, &g);
        println!("validate {:?} = {:?}", seq, m.validate_tokens(&seq).map_err(|e| e.to_string()));
        let mut m = matcher(&f, &g);
        let r = m.consume_tokens(&seq).map_err(|e| llgv::engine::short_err(&e.to_string()));
        println!("consume_tokens {:?} = {:?} stopped={} reason={:?} err={}", seq, r, m.is_stopped(), m.stop_reason(), m.is_error());
        let mut m = matcher(&f, &g);
        let r = m.try_consume_tokens(&seq).map_err(|e| llgv::engine::short_err(&e.to_string()));
        println!("try_consume {:?} = {:?} stopped={} reason={:?}", seq, r, m.is_stopped(), m.stop_reason());
    }
}
