//! ad-hoc probe: sample a grammar strategy, compile each sample, print compile errors and a few samples
use llgv::engine::{factory, matcher};
use proptest::strategy::{Strategy, ValueTree};
use proptest::test_runner::{Config, RngSeed, TestRunner};
fn main() {
    let which = std::env::args().nth(1).unwrap_or("line".into());
    let v = llgv::walk::byte_vocab();
    let f = factory(&v);
    let mut r = TestRunner::new(Config { rng_seed: RngSeed::Fixed(7), ..Config::default() });
    let st = match which.as_str() {
        "line" => llgv::gen::line_grammar(),
        _ => llgv::gen::any_grammar(),
    };
    let mut bad = 0;
    for i in 0..300 {
        let g = st.new_tree(&mut r).unwrap().current();
        let m = matcher(&f, &g);
        if let Some(e) = m.get_error() {
            bad += 1;
            if bad < 6 {
                println!("COMPILE ERROR {}\n   {}", g.text(), llgv::engine::short_err(&e));
            }
        } else if i < 8 {
            println!("ok: {}", g.text().replace('\n', " ⏎ "));
        }
    }
    println!("{} of 300 failed to compile", bad);
}
