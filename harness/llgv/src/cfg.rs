//! Context-free grammars of the harness: generator, Lark renderer and the independent
//! reference recogniser (R-CFG): a plain fix-point Earley chart over bytes, with
//! parametric symbols handled as (symbol, u64) pairs and an own evaluator of the
//! parameter language written from docs/parametric.md.

use crate::engine::GrammarSpec;
use proptest::prelude::*;
use serde::{Deserialize, Serialize};
use std::collections::{BTreeSet, HashMap, HashSet};

// ------------------------------------------------------------------------------------------
// surface grammar
// ------------------------------------------------------------------------------------------

#[derive(Clone, Debug, Serialize, Deserialize, PartialEq, Eq, Hash)]
pub enum Term {
    Lit(String),
    /// single-byte class (ASCII bytes)
    Class(Vec<u8>),
}

/// terminal pool: pairwise different first bytes, classes disjoint from each other and from
/// those first bytes (the side condition of C05), so every subset satisfies it
pub fn term_pool() -> Vec<Term> {
    vec![
        Term::Lit("a".into()),
        Term::Lit("bc".into()),
        Term::Lit("d".into()),
        Term::Lit("ef".into()),
        Term::Lit("(".into()),
        Term::Lit(")".into()),
        Term::Lit(",".into()),
        Term::Lit("é".into()),
        Term::Lit("€g".into()),
        Term::Class(vec![b'x', b'y', b'z']),
        Term::Class(vec![b'0', b'1', b'2', b'3']),
        Term::Class(vec![b' ', b'\n']),
    ]
}

#[derive(Clone, Debug, Serialize, Deserialize, PartialEq, Eq, Hash)]
pub enum Expr {
    T(usize),
    N(usize),
    Empty,
    Seq(Vec<Expr>),
    Alt(Vec<Expr>),
    /// rendered as `( x )?`
    Opt(Box<Expr>),
    /// rendered as `[ x ]`
    Maybe(Box<Expr>),
    Star(Box<Expr>),
    Plus(Box<Expr>),
    Rep(Box<Expr>, u32, Option<u32>),
}

#[derive(Clone, Debug, Serialize, Deserialize, PartialEq, Eq, Hash)]
pub struct Cfg {
    pub terms: Vec<Term>,
    /// rule 0 is the start rule; each rule is a list of alternatives
    pub rules: Vec<Vec<Expr>>,
}

fn term_lark(t: &Term) -> String {
    match t {
        Term::Lit(s) => serde_json::to_string(s).unwrap(),
        Term::Class(b) => {
            let mut s = String::from("/[");
            for &c in b {
                match c {
                    b'\n' => s.push_str("\\n"),
                    b'-' | b']' | b'[' | b'^' | b'\\' | b'/' => {
                        s.push('\\');
                        s.push(c as char)
                    }
                    _ => s.push(c as char),
                }
            }
            s.push_str("]/");
            s
        }
    }
}

fn rule_name(i: usize) -> String {
    if i == 0 {
        "start".to_string()
    } else {
        format!("r{}", i)
    }
}

impl Expr {
    fn lark(&self, g: &Cfg, top: bool) -> String {
        match self {
            Expr::T(i) => term_lark(&g.terms[*i]),
            Expr::N(i) => rule_name(*i),
            Expr::Empty => "\"\"".to_string(),
            Expr::Seq(v) => {
                let s = v.iter().map(|x| x.lark(g, false)).collect::<Vec<_>>().join(" ");
                if top {
                    s
                } else {
                    format!("( {} )", s)
                }
            }
            Expr::Alt(v) => format!("( {} )", v.iter().map(|x| x.lark(g, true)).collect::<Vec<_>>().join(" | ")),
            Expr::Opt(x) => format!("( {} )?", x.lark(g, true)),
            Expr::Maybe(x) => format!("[ {} ]", x.lark(g, true)),
            Expr::Star(x) => format!("( {} )*", x.lark(g, true)),
            Expr::Plus(x) => format!("( {} )+", x.lark(g, true)),
            Expr::Rep(x, m, Some(n)) => format!("( {} ){{{},{}}}", x.lark(g, true), m, n),
            Expr::Rep(x, m, None) => format!("( {} ){{{},}}", x.lark(g, true), m),
        }
    }
    fn refs(&self, out: &mut BTreeSet<usize>) {
        match self {
            Expr::N(i) => {
                out.insert(*i);
            }
            Expr::Seq(v) | Expr::Alt(v) => v.iter().for_each(|x| x.refs(out)),
            Expr::Opt(x) | Expr::Maybe(x) | Expr::Star(x) | Expr::Plus(x) | Expr::Rep(x, _, _) => x.refs(out),
            _ => {}
        }
    }
    fn has_rep(&self) -> bool {
        match self {
            Expr::Rep(..) => true,
            Expr::Seq(v) | Expr::Alt(v) => v.iter().any(|x| x.has_rep()),
            Expr::Opt(x) | Expr::Maybe(x) | Expr::Star(x) | Expr::Plus(x) => x.has_rep(),
            _ => false,
        }
    }
}

impl Cfg {
    pub fn reachable(&self) -> BTreeSet<usize> {
        let mut seen = BTreeSet::new();
        let mut stack = vec![0usize];
        seen.insert(0);
        while let Some(r) = stack.pop() {
            let mut refs = BTreeSet::new();
            for a in &self.rules[r] {
                a.refs(&mut refs);
            }
            for x in refs {
                if seen.insert(x) {
                    stack.push(x);
                }
            }
        }
        seen
    }

    pub fn to_lark(&self) -> String {
        let mut s = String::new();
        for r in self.reachable() {
            let alts: Vec<String> = self.rules[r].iter().map(|a| a.lark(self, true)).collect();
            s.push_str(&format!("{}: {}\n", rule_name(r), alts.join(" | ")));
        }
        s
    }

    pub fn grammar(&self) -> GrammarSpec {
        GrammarSpec::Lark(self.to_lark())
    }

    pub fn has_rep(&self) -> bool {
        self.rules.iter().any(|r| r.iter().any(|a| a.has_rep()))
    }

    /// lowering to BNF, independent of how the engine expands the operators
    pub fn to_bnf(&self) -> Bnf {
        let mut b = Bnf {
            prods: vec![],
            n_nts: self.rules.len(),
            start: 0,
            start_param: 0,
            names: (0..self.rules.len()).map(rule_name).collect(),
        };
        for (i, alts) in self.rules.iter().enumerate() {
            for a in alts {
                let rhs = self.lower(a, &mut b);
                b.prods.push(Prod {
                    lhs: i,
                    rhs,
                    cond: Cond::True,
                });
            }
        }
        b
    }

    fn fresh(&self, b: &mut Bnf) -> usize {
        b.n_nts += 1;
        b.names.push(format!("_h{}", b.n_nts - 1));
        b.n_nts - 1
    }

    fn lower(&self, e: &Expr, b: &mut Bnf) -> Vec<BSym> {
        match e {
            Expr::T(i) => match &self.terms[*i] {
                Term::Lit(s) => s.bytes().map(|c| BSym::Bytes(ByteSet::single(c))).collect(),
                Term::Class(cs) => vec![BSym::Bytes(ByteSet::from_list(cs))],
            },
            Expr::N(i) => vec![BSym::Nt(*i, PExpr::Const(0))],
            Expr::Empty => vec![],
            Expr::Seq(v) => v.iter().flat_map(|x| self.lower(x, b)).collect(),
            Expr::Alt(v) => {
                let h = self.fresh(b);
                for x in v {
                    let rhs = self.lower(x, b);
                    b.prods.push(Prod { lhs: h, rhs, cond: Cond::True });
                }
                vec![BSym::Nt(h, PExpr::Const(0))]
            }
            Expr::Opt(x) | Expr::Maybe(x) => {
                let h = self.fresh(b);
                let rhs = self.lower(x, b);
                b.prods.push(Prod { lhs: h, rhs, cond: Cond::True });
                b.prods.push(Prod { lhs: h, rhs: vec![], cond: Cond::True });
                vec![BSym::Nt(h, PExpr::Const(0))]
            }
            Expr::Star(x) => {
                let h = self.fresh(b);
                let mut rhs = vec![BSym::Nt(h, PExpr::Const(0))];
                rhs.extend(self.lower(x, b));
                b.prods.push(Prod { lhs: h, rhs, cond: Cond::True });
                b.prods.push(Prod { lhs: h, rhs: vec![], cond: Cond::True });
                vec![BSym::Nt(h, PExpr::Const(0))]
            }
            Expr::Plus(x) => {
                let mut v = self.lower(x, b);
                v.extend(self.lower(&Expr::Star(x.clone()), b));
                v
            }
            Expr::Rep(x, m, n) => {
                let mut v = vec![];
                for _ in 0..*m {
                    v.extend(self.lower(x, b));
                }
                match n {
                    None => v.extend(self.lower(&Expr::Star(x.clone()), b)),
                    Some(n) => {
                        // nested optionals: (x (x (x)?)?)?
                        let mut tail: Vec<BSym> = vec![];
                        for _ in *m..*n {
                            let h = self.fresh(b);
                            let mut rhs = self.lower(x, b);
                            rhs.extend(tail);
                            b.prods.push(Prod { lhs: h, rhs, cond: Cond::True });
                            b.prods.push(Prod { lhs: h, rhs: vec![], cond: Cond::True });
                            tail = vec![BSym::Nt(h, PExpr::Const(0))];
                        }
                        v.extend(tail);
                    }
                }
                v
            }
        }
    }

    /// make every rule productive by construction: unproductive rules get a terminal alternative
    pub fn repair(&mut self) {
        loop {
            let bnf = self.to_bnf();
            let prod = bnf.productive_nts();
            let mut changed = false;
            for i in 0..self.rules.len() {
                if !prod[i] {
                    self.rules[i].push(Expr::T(i % self.terms.len()));
                    changed = true;
                }
            }
            if !changed {
                break;
            }
        }
    }

    pub fn features(&self) -> Vec<&'static str> {
        let bnf = self.to_bnf();
        let mut f = vec![];
        let nullable = bnf.nullable_nts();
        if (0..self.rules.len()).any(|i| nullable[i]) {
            f.push("nullable");
        }
        let (left, right, mutual) = bnf.recursion_kinds(self.rules.len());
        if left {
            f.push("left_rec");
        }
        if right {
            f.push("right_rec");
        }
        if mutual {
            f.push("mutual_rec");
        }
        if self.has_rep() {
            f.push("rep");
        }
        // duplicated alternatives => ambiguity
        for r in &self.rules {
            let s: HashSet<&Expr> = r.iter().collect();
            if s.len() < r.len() {
                f.push("dup_alt");
                break;
            }
        }
        f
    }
}

// ------------------------------------------------------------------------------------------
// BNF with parameters
// ------------------------------------------------------------------------------------------

#[derive(Clone, Copy, PartialEq, Eq, Hash, Debug)]
pub struct ByteSet(pub [u64; 4]);

impl ByteSet {
    pub fn single(b: u8) -> Self {
        let mut s = ByteSet([0; 4]);
        s.0[(b >> 6) as usize] |= 1 << (b & 63);
        s
    }
    pub fn from_list(l: &[u8]) -> Self {
        let mut s = ByteSet([0; 4]);
        for &b in l {
            s.0[(b >> 6) as usize] |= 1 << (b & 63);
        }
        s
    }
    #[inline]
    pub fn has(&self, b: u8) -> bool {
        self.0[(b >> 6) as usize] & (1 << (b & 63)) != 0
    }
}

#[derive(Clone, PartialEq, Eq, Hash, Debug)]
pub enum PExpr {
    SelfRef,
    Const(u64),
    SetBit(u8),
    ClearBit(u8),
    BitAnd(u64),
    BitOr(u64),
    Incr(u8, u8),
    Decr(u8, u8),
}

fn range_mask(x: u8, y: u8) -> u64 {
    // bits [x, y)
    let w = (y - x) as u32;
    let m = if w >= 64 { u64::MAX } else { (1u64 << w) - 1 };
    m << x
}

fn field(p: u64, x: u8, y: u8) -> u64 {
    (p & range_mask(x, y)) >> x
}

impl PExpr {
    pub fn eval(&self, p: u64) -> u64 {
        match self {
            PExpr::SelfRef => p,
            PExpr::Const(v) => *v,
            PExpr::SetBit(k) => p | (1u64 << k),
            PExpr::ClearBit(k) => p & !(1u64 << k),
            PExpr::BitAnd(v) => p & v,
            PExpr::BitOr(v) => p | v,
            PExpr::Incr(x, y) => {
                let m = range_mask(*x, *y);
                if p & m == m {
                    p
                } else {
                    p.wrapping_add(1u64 << x)
                }
            }
            PExpr::Decr(x, y) => {
                let m = range_mask(*x, *y);
                if p & m == 0 {
                    p
                } else {
                    p.wrapping_sub(1u64 << x)
                }
            }
        }
    }
    pub fn lark(&self) -> String {
        match self {
            PExpr::SelfRef => "_".into(),
            PExpr::Const(v) => format!("{:#x}", v),
            PExpr::SetBit(k) => format!("set_bit({})", k),
            PExpr::ClearBit(k) => format!("clear_bit({})", k),
            PExpr::BitAnd(v) => format!("bit_and({:#x})", v),
            PExpr::BitOr(v) => format!("bit_or({:#x})", v),
            PExpr::Incr(x, y) => format!("incr([{}:{}])", x, y),
            PExpr::Decr(x, y) => format!("decr([{}:{}])", x, y),
        }
    }
}

#[derive(Clone, PartialEq, Eq, Hash, Debug)]
pub enum Cmp {
    Eq,
    Ne,
    Lt,
    Le,
    Gt,
    Ge,
}

impl Cmp {
    fn ev(&self, a: u64, b: u64) -> bool {
        match self {
            Cmp::Eq => a == b,
            Cmp::Ne => a != b,
            Cmp::Lt => a < b,
            Cmp::Le => a <= b,
            Cmp::Gt => a > b,
            Cmp::Ge => a >= b,
        }
    }
    fn name(&self) -> &'static str {
        match self {
            Cmp::Eq => "eq",
            Cmp::Ne => "ne",
            Cmp::Lt => "lt",
            Cmp::Le => "le",
            Cmp::Gt => "gt",
            Cmp::Ge => "ge",
        }
    }
}

#[derive(Clone, PartialEq, Eq, Hash, Debug)]
pub enum Cond {
    True,
    BitClear(u8),
    BitSet(u8),
    IsOnes(u8, u8),
    IsZeros(u8, u8),
    Cmp(Cmp, u8, u8, u64),
    BitCount(Cmp, u8, u8, u64),
    And(Box<Cond>, Box<Cond>),
    Or(Box<Cond>, Box<Cond>),
    Not(Box<Cond>),
}

impl Cond {
    pub fn eval(&self, p: u64) -> bool {
        match self {
            Cond::True => true,
            Cond::BitClear(k) => p & (1u64 << k) == 0,
            Cond::BitSet(k) => p & (1u64 << k) != 0,
            Cond::IsOnes(x, y) => p & range_mask(*x, *y) == range_mask(*x, *y),
            Cond::IsZeros(x, y) => p & range_mask(*x, *y) == 0,
            Cond::Cmp(c, x, y, v) => c.ev(field(p, *x, *y), *v),
            Cond::BitCount(c, x, y, k) => c.ev(field(p, *x, *y).count_ones() as u64, *k),
            Cond::And(a, b) => a.eval(p) && b.eval(p),
            Cond::Or(a, b) => a.eval(p) || b.eval(p),
            Cond::Not(a) => !a.eval(p),
        }
    }
    pub fn lark(&self) -> String {
        match self {
            Cond::True => "true".into(),
            Cond::BitClear(k) => format!("bit_clear({})", k),
            Cond::BitSet(k) => format!("bit_set({})", k),
            Cond::IsOnes(x, y) => format!("is_ones([{}:{}])", x, y),
            Cond::IsZeros(x, y) => format!("is_zeros([{}:{}])", x, y),
            Cond::Cmp(c, x, y, v) => format!("{}([{}:{}], {})", c.name(), x, y, v),
            Cond::BitCount(c, x, y, k) => format!("bit_count_{}([{}:{}], {})", c.name(), x, y, k),
            Cond::And(a, b) => format!("and({}, {})", a.lark(), b.lark()),
            Cond::Or(a, b) => format!("or({}, {})", a.lark(), b.lark()),
            Cond::Not(a) => format!("not({})", a.lark()),
        }
    }
}

#[derive(Clone, PartialEq, Eq, Hash, Debug)]
pub enum BSym {
    Bytes(ByteSet),
    Nt(usize, PExpr),
}

#[derive(Clone, Debug)]
pub struct Prod {
    pub lhs: usize,
    pub rhs: Vec<BSym>,
    pub cond: Cond,
}

#[derive(Clone, Debug)]
pub struct Bnf {
    pub prods: Vec<Prod>,
    pub n_nts: usize,
    pub start: usize,
    pub start_param: u64,
    pub names: Vec<String>,
}

impl Bnf {
    /// productivity ignoring parameters (used for non-parametric grammars)
    pub fn productive_nts(&self) -> Vec<bool> {
        let mut p = vec![false; self.n_nts];
        loop {
            let mut ch = false;
            for pr in &self.prods {
                if !p[pr.lhs]
                    && pr.rhs.iter().all(|s| match s {
                        BSym::Bytes(_) => true,
                        BSym::Nt(n, _) => p[*n],
                    })
                {
                    p[pr.lhs] = true;
                    ch = true;
                }
            }
            if !ch {
                break;
            }
        }
        p
    }

    pub fn nullable_nts(&self) -> Vec<bool> {
        let mut p = vec![false; self.n_nts];
        loop {
            let mut ch = false;
            for pr in &self.prods {
                if !p[pr.lhs]
                    && pr.rhs.iter().all(|s| match s {
                        BSym::Bytes(_) => false,
                        BSym::Nt(n, _) => p[*n],
                    })
                {
                    p[pr.lhs] = true;
                    ch = true;
                }
            }
            if !ch {
                break;
            }
        }
        p
    }

    /// (left recursion, right recursion, mutual recursion) among the first `n_user` symbols
    pub fn recursion_kinds(&self, _n_user: usize) -> (bool, bool, bool) {
        let nullable = self.nullable_nts();
        let n = self.n_nts;
        let mut left = vec![HashSet::new(); n];
        let mut right = vec![HashSet::new(); n];
        let mut any = vec![HashSet::new(); n];
        for pr in &self.prods {
            for s in &pr.rhs {
                if let BSym::Nt(x, _) = s {
                    any[pr.lhs].insert(*x);
                }
            }
            for s in &pr.rhs {
                match s {
                    BSym::Nt(x, _) => {
                        left[pr.lhs].insert(*x);
                        if !nullable[*x] {
                            break;
                        }
                    }
                    _ => break,
                }
            }
            for s in pr.rhs.iter().rev() {
                match s {
                    BSym::Nt(x, _) => {
                        right[pr.lhs].insert(*x);
                        if !nullable[*x] {
                            break;
                        }
                    }
                    _ => break,
                }
            }
        }
        let closure = |g: &Vec<HashSet<usize>>| -> Vec<HashSet<usize>> {
            let mut c = g.clone();
            loop {
                let mut ch = false;
                for i in 0..n {
                    let cur: Vec<usize> = c[i].iter().cloned().collect();
                    for j in cur {
                        let add: Vec<usize> = c[j].iter().cloned().collect();
                        for k in add {
                            if c[i].insert(k) {
                                ch = true;
                            }
                        }
                    }
                }
                if !ch {
                    break;
                }
            }
            c
        };
        let lc = closure(&left);
        let rc = closure(&right);
        let ac = closure(&any);
        let l = (0..n).any(|i| lc[i].contains(&i));
        let r = (0..n).any(|i| rc[i].contains(&i));
        let m = (0..n).any(|i| (0..n).any(|j| i != j && ac[i].contains(&j) && ac[j].contains(&i) && i < _n_user && j < _n_user));
        (l, r, m)
    }

    /// Builds the analysis needed by the recogniser: the set of reachable (nt, param) pairs and
    /// which of them are productive.  `None` if the pair space exceeds the budget.
    pub fn analyse(&self) -> Option<Analysed<'_>> {
        let mut by_lhs: Vec<Vec<usize>> = vec![vec![]; self.n_nts];
        for (i, p) in self.prods.iter().enumerate() {
            by_lhs[p.lhs].push(i);
        }
        let mut pairs: HashSet<(usize, u64)> = HashSet::new();
        let mut stack = vec![(self.start, self.start_param)];
        pairs.insert((self.start, self.start_param));
        while let Some((a, p)) = stack.pop() {
            for &pi in &by_lhs[a] {
                let pr = &self.prods[pi];
                if !pr.cond.eval(p) {
                    continue;
                }
                for s in &pr.rhs {
                    if let BSym::Nt(b, pe) = s {
                        let q = (*b, pe.eval(p));
                        if pairs.insert(q) {
                            if pairs.len() > 20000 {
                                return None;
                            }
                            stack.push(q);
                        }
                    }
                }
            }
        }
        let mut productive: HashSet<(usize, u64)> = HashSet::new();
        loop {
            let mut ch = false;
            for &(a, p) in &pairs {
                if productive.contains(&(a, p)) {
                    continue;
                }
                for &pi in &by_lhs[a] {
                    let pr = &self.prods[pi];
                    if !pr.cond.eval(p) {
                        continue;
                    }
                    if pr.rhs.iter().all(|s| match s {
                        BSym::Bytes(_) => true,
                        BSym::Nt(b, pe) => productive.contains(&(*b, pe.eval(p))),
                    }) {
                        productive.insert((a, p));
                        ch = true;
                        break;
                    }
                }
            }
            if !ch {
                break;
            }
        }
        let all_productive = pairs.len() == productive.len();
        Some(Analysed {
            bnf: self,
            by_lhs,
            productive,
            n_pairs: pairs.len(),
            all_productive,
        })
    }
}

pub struct Analysed<'a> {
    pub bnf: &'a Bnf,
    by_lhs: Vec<Vec<usize>>,
    productive: HashSet<(usize, u64)>,
    pub n_pairs: usize,
    /// is every reachable (symbol, parameter) pair productive (the grammar is reduced)
    pub all_productive: bool,
}

#[derive(Clone, Copy, PartialEq, Eq, Hash, Debug)]
struct Item {
    prod: u32,
    dot: u16,
    origin: u16,
    param: u64,
}

/// Incremental chart: push a byte / pop a byte.
pub struct Chart<'a> {
    a: &'a Analysed<'a>,
    sets: Vec<Vec<Item>>,
}

impl<'a> Chart<'a> {
    pub fn new(a: &'a Analysed<'a>) -> Self {
        let mut c = Chart { a, sets: vec![] };
        let mut s0 = Vec::new();
        let b = a.bnf;
        if a.productive.contains(&(b.start, b.start_param)) {
            c.predict(b.start, b.start_param, 0, &mut s0);
        }
        c.sets.push(s0);
        c.close(0);
        c
    }

    fn usable(&self, pi: usize, param: u64) -> bool {
        let pr = &self.a.bnf.prods[pi];
        pr.cond.eval(param)
            && pr.rhs.iter().all(|s| match s {
                BSym::Bytes(_) => true,
                BSym::Nt(b, pe) => self.a.productive.contains(&(*b, pe.eval(param))),
            })
    }

    fn predict(&self, nt: usize, param: u64, pos: usize, out: &mut Vec<Item>) {
        for &pi in &self.a.by_lhs[nt] {
            if self.usable(pi, param) {
                let it = Item {
                    prod: pi as u32,
                    dot: 0,
                    origin: pos as u16,
                    param,
                };
                if !out.contains(&it) {
                    out.push(it);
                }
            }
        }
    }

    /// fix-point closure of set `pos` (predict + complete), deliberately naive
    fn close(&mut self, pos: usize) {
        loop {
            let snapshot = self.sets[pos].clone();
            let mut add: Vec<Item> = Vec::new();
            for it in &snapshot {
                let pr = &self.a.bnf.prods[it.prod as usize];
                if (it.dot as usize) < pr.rhs.len() {
                    if let BSym::Nt(b, pe) = &pr.rhs[it.dot as usize] {
                        let q = pe.eval(it.param);
                        let mut tmp = Vec::new();
                        self.predict(*b, q, pos, &mut tmp);
                        add.extend(tmp);
                    }
                } else {
                    // complete
                    let src = &self.sets[it.origin as usize];
                    for parent in src.iter() {
                        let ppr = &self.a.bnf.prods[parent.prod as usize];
                        if (parent.dot as usize) < ppr.rhs.len() {
                            if let BSym::Nt(b, pe) = &ppr.rhs[parent.dot as usize] {
                                if *b == pr.lhs && pe.eval(parent.param) == it.param {
                                    add.push(Item {
                                        dot: parent.dot + 1,
                                        ..*parent
                                    });
                                }
                            }
                        }
                    }
                }
            }
            let mut changed = false;
            let have: HashSet<Item> = self.sets[pos].iter().cloned().collect();
            let mut have = have;
            for it in add {
                if have.insert(it) {
                    self.sets[pos].push(it);
                    changed = true;
                }
            }
            if !changed {
                break;
            }
        }
    }

    pub fn len(&self) -> usize {
        self.sets.len() - 1
    }
    pub fn is_empty(&self) -> bool {
        self.len() == 0
    }

    /// push a byte; returns false (and leaves the chart unchanged) if the prefix is not viable
    pub fn push(&mut self, byte: u8) -> bool {
        let pos = self.sets.len() - 1;
        let mut next = Vec::new();
        for it in &self.sets[pos] {
            let pr = &self.a.bnf.prods[it.prod as usize];
            if (it.dot as usize) < pr.rhs.len() {
                if let BSym::Bytes(bs) = &pr.rhs[it.dot as usize] {
                    if bs.has(byte) {
                        let n = Item { dot: it.dot + 1, ..*it };
                        if !next.contains(&n) {
                            next.push(n);
                        }
                    }
                }
            }
        }
        if next.is_empty() {
            return false;
        }
        self.sets.push(next);
        self.close(pos + 1);
        true
    }

    pub fn pop(&mut self) {
        assert!(self.sets.len() > 1);
        self.sets.pop();
    }

    /// is the current prefix a complete sentence
    pub fn accepting(&self) -> bool {
        let b = self.a.bnf;
        self.sets.last().unwrap().iter().any(|it| {
            let pr = &b.prods[it.prod as usize];
            it.origin == 0 && pr.lhs == b.start && it.param == b.start_param && it.dot as usize == pr.rhs.len()
        })
    }

    /// bytes that keep the prefix viable
    pub fn next_bytes(&self) -> ByteSet {
        let mut r = ByteSet([0; 4]);
        for it in self.sets.last().unwrap() {
            let pr = &self.a.bnf.prods[it.prod as usize];
            if (it.dot as usize) < pr.rhs.len() {
                if let BSym::Bytes(bs) = &pr.rhs[it.dot as usize] {
                    for k in 0..4 {
                        r.0[k] |= bs.0[k];
                    }
                }
            }
        }
        r
    }

    /// can the current (viable) prefix be extended by at least one byte
    pub fn can_extend(&self) -> bool {
        self.next_bytes().0.iter().any(|w| *w != 0)
    }

    pub fn viable_ext(&mut self, bytes: &[u8]) -> bool {
        let mut n = 0;
        let mut ok = true;
        for &b in bytes {
            if self.push(b) {
                n += 1;
            } else {
                ok = false;
                break;
            }
        }
        for _ in 0..n {
            self.pop();
        }
        ok
    }
}

pub fn accepts(a: &Analysed, s: &[u8]) -> bool {
    let mut c = Chart::new(a);
    for &b in s {
        if !c.push(b) {
            return false;
        }
    }
    c.accepting()
}

// ------------------------------------------------------------------------------------------
// parametric templates (docs/parametric.md families)
// ------------------------------------------------------------------------------------------

#[derive(Clone, Debug, Serialize, Deserialize, PartialEq, Eq, Hash)]
pub enum ParamTemplate {
    /// permutation of the first n letters
    Perm(u8),
    /// every letter at least once, any order
    AtLeastOnce(u8),
    /// a^i b^j with i+j < limit (one shared counter)
    Counter(u8),
    /// letters in any order, letter k at most caps[k] times
    Caps(Vec<u8>),
    /// pick between lo and hi distinct letters out of n
    Unique { n: u8, lo: u8, hi: u8 },
    /// counter with decr: balanced up/down with bounded height, `u` increments, `v` decrements, ends at zero
    UpDown(u8),
    /// clear_bit / bit_and / bit_or / not / or conditions
    Toggle(u8),
    /// a parametric rule whose only production is one parametric reference that *changes* the
    /// parameter (`more::_ : item::incr(_)`), referenced recursively: `a;a;...a.` with at most k+1 items
    AliasChain { k: u8, op: u8 },
    /// recursive parametric reference inside `depth` nested groups (`p::_ : "a" ("c" ("d" p::incr(_)))`):
    /// the groups become single-rule symbols that the optimiser inlines into one another
    Grouped { k: u8, depth: u8 },
    /// `start: "z" | p::0 | "k" p::1 | "m" p::2 | "n" p::3`, `p::_ : "<" q::_ ">"` (q referenced once, with `_`),
    /// `q::_ :` 1..4 alternatives (literal or empty, each under a condition from a small table): single guarded
    /// rules, several nullability clauses for one symbol, or-conditions
    Guarded { alts: Vec<(u8, u8)>, consts: u8 },
    /// like `Guarded`, but the start alternatives are told apart only *after* the parametric symbol
    /// (`start: "z" | p::0 "0" | p::1 "1" | ...`): the same symbol is predicted with several parameter values at
    /// one input position, and each completion must go back to the item that predicted that value
    Suffixed { alts: Vec<(u8, u8)>, consts: u8 },
}

const LETTERS: &[&str] = &["a", "b", "c", "d", "e", "f"];

fn lit(s: &str) -> Vec<BSym> {
    s.bytes().map(|c| BSym::Bytes(ByteSet::single(c))).collect()
}

struct PB {
    lark: String,
    prods: Vec<Prod>,
}

impl PB {
    /// alt of parametric rule `name` (index `lhs`): literal, then optional recursive ref
    fn alt(&mut self, first: bool, name: &str, lhs: usize, l: &str, next: Option<(usize, &str, PExpr)>, cond: Cond) {
        let mut rhs = lit(l);
        let mut txt = if l.is_empty() && next.is_none() {
            "\"\"".to_string()
        } else if l.is_empty() {
            String::new()
        } else {
            serde_json::to_string(l).unwrap()
        };
        if let Some((n, nname, pe)) = next {
            rhs.push(BSym::Nt(n, pe.clone()));
            if !txt.is_empty() {
                txt.push(' ');
            }
            txt.push_str(&format!("{}::{}", nname, pe.lark()));
        }
        let c = if cond == Cond::True {
            String::new()
        } else {
            format!(" %if {}", cond.lark())
        };
        if first {
            self.lark.push_str(&format!("{}::_ : {}{}\n", name, txt, c));
        } else {
            self.lark.push_str(&format!("    | {}{}\n", txt, c));
        }
        self.prods.push(Prod { lhs, rhs, cond });
    }
}

impl ParamTemplate {
    pub fn build(&self) -> (String, Bnf) {
        let mut pb = PB {
            lark: String::new(),
            prods: vec![],
        };
        let mut n_nts = 2;
        let mut names = vec!["start".to_string(), "p".to_string()];
        // start: p::0
        pb.lark.push_str("start: p::0x0\n");
        pb.prods.push(Prod {
            lhs: 0,
            rhs: vec![BSym::Nt(1, PExpr::Const(0))],
            cond: Cond::True,
        });
        match self {
            ParamTemplate::Perm(n) => {
                pb.alt(true, "p", 1, "", None, Cond::IsOnes(0, *n));
                for k in 0..*n {
                    pb.alt(false, "p", 1, LETTERS[k as usize], Some((1, "p", PExpr::SetBit(k))), Cond::BitClear(k));
                }
            }
            ParamTemplate::AtLeastOnce(n) => {
                pb.alt(true, "p", 1, "", None, Cond::IsOnes(0, *n));
                for k in 0..*n {
                    pb.alt(false, "p", 1, LETTERS[k as usize], Some((1, "p", PExpr::SetBit(k))), Cond::True);
                }
            }
            ParamTemplate::Counter(limit) => {
                n_nts = 3;
                names.push("q".into());
                pb.alt(true, "p", 1, "a", Some((1, "p", PExpr::Incr(0, 64))), Cond::Cmp(Cmp::Lt, 0, 64, *limit as u64));
                pb.alt(false, "p", 1, "", Some((2, "q", PExpr::SelfRef)), Cond::True);
                pb.alt(true, "q", 2, "b", Some((2, "q", PExpr::Incr(0, 64))), Cond::Cmp(Cmp::Lt, 0, 64, *limit as u64));
                pb.alt(false, "q", 2, "", None, Cond::True);
            }
            ParamTemplate::Caps(caps) => {
                let mut first = true;
                for (k, c) in caps.iter().enumerate() {
                    let x = (k * 3) as u8;
                    pb.alt(
                        first,
                        "p",
                        1,
                        LETTERS[k],
                        Some((1, "p", PExpr::Incr(x, x + 3))),
                        Cond::Cmp(Cmp::Lt, x, x + 3, *c as u64),
                    );
                    first = false;
                }
                pb.alt(false, "p", 1, "", None, Cond::True);
            }
            ParamTemplate::Unique { n, lo, hi } => {
                pb.alt(true, "p", 1, "", None, Cond::BitCount(Cmp::Ge, 0, 64, *lo as u64));
                for k in 0..*n {
                    pb.alt(
                        false,
                        "p",
                        1,
                        LETTERS[k as usize],
                        Some((1, "p", PExpr::SetBit(k))),
                        Cond::And(Box::new(Cond::BitClear(k)), Box::new(Cond::BitCount(Cmp::Lt, 0, 64, *hi as u64))),
                    );
                }
            }
            ParamTemplate::UpDown(h) => {
                // height in bits [0:3], capped at h (<= 6)
                pb.alt(true, "p", 1, "u", Some((1, "p", PExpr::Incr(0, 3))), Cond::Cmp(Cmp::Lt, 0, 3, *h as u64));
                pb.alt(false, "p", 1, "v", Some((1, "p", PExpr::Decr(0, 3))), Cond::Cmp(Cmp::Gt, 0, 3, 0));
                pb.alt(false, "p", 1, "", None, Cond::IsZeros(0, 3));
            }
            ParamTemplate::AliasChain { k, op } => {
                n_nts = 3;
                names.push("q".into());
                // p::_ : q::<op>   (single unconditional rule with a modifying parameter)
                let (pe, cond) = match op % 3 {
                    0 => (PExpr::Incr(0, 64), Cond::Cmp(Cmp::Lt, 0, 64, *k as u64)),
                    1 => (PExpr::Incr(0, 4), Cond::Cmp(Cmp::Le, 0, 4, *k as u64)),
                    _ => (PExpr::SetBit(*k % 4), Cond::BitClear(*k % 4)),
                };
                pb.alt(true, "p", 1, "", Some((2, "q", pe)), Cond::True);
                pb.alt(true, "q", 2, "a", Some((1, "p", PExpr::SelfRef)), cond);
                pb.alt(false, "q", 2, "b", None, Cond::True);
            }
            ParamTemplate::Grouped { k, depth } => {
                let cond = Cond::Cmp(Cmp::Lt, 0, 8, *k as u64);
                let pe = PExpr::Incr(0, 8);
                let mut txt = "\"a\"".to_string();
                let mut rhs = lit("a");
                for d in 0..*depth {
                    let l = LETTERS[2 + d as usize];
                    txt.push_str(&format!(" ({:?}", l));
                    rhs.extend(lit(l));
                }
                txt.push_str(&format!(" p::{}", pe.lark()));
                txt.push_str(&")".repeat(*depth as usize));
                rhs.push(BSym::Nt(1, pe));
                pb.lark.push_str(&format!("p::_ : {} %if {}\n", txt, cond.lark()));
                pb.prods.push(Prod { lhs: 1, rhs, cond });
                pb.alt(false, "p", 1, "b", None, Cond::True);
            }
            ParamTemplate::Guarded { alts, consts } | ParamTemplate::Suffixed { alts, consts } => {
                let suffixed = matches!(self, ParamTemplate::Suffixed { .. });
                n_nts = 3;
                names.push("q".into());
                // the generic "start: p::0x0" written by the prologue is replaced
                pb.lark.clear();
                pb.prods.clear();
                pb.lark.push_str("start: \"z\"");
                pb.prods.push(Prod { lhs: 0, rhs: lit("z"), cond: Cond::True });
                for (i, pre) in ["", "k", "m", "n"].iter().enumerate() {
                    if consts & (1 << i) == 0 {
                        continue;
                    }
                    if suffixed {
                        let suf = ["0", "1", "2", "3"][i];
                        let mut rhs = vec![BSym::Nt(1, PExpr::Const(i as u64))];
                        rhs.extend(lit(suf));
                        pb.lark.push_str(&format!(" | p::{:#x} {:?}", i, suf));
                        pb.prods.push(Prod { lhs: 0, rhs, cond: Cond::True });
                        continue;
                    }
                    let mut rhs = lit(pre);
                    rhs.push(BSym::Nt(1, PExpr::Const(i as u64)));
                    if pre.is_empty() {
                        pb.lark.push_str(&format!(" | p::{:#x}", i));
                    } else {
                        pb.lark.push_str(&format!(" | {:?} p::{:#x}", pre, i));
                    }
                    pb.prods.push(Prod { lhs: 0, rhs, cond: Cond::True });
                }
                pb.lark.push('\n');
                pb.lark.push_str("p::_ : \"<\" q::_ \">\"\n");
                let mut rhs = lit("<");
                rhs.push(BSym::Nt(2, PExpr::SelfRef));
                rhs.extend(lit(">"));
                pb.prods.push(Prod { lhs: 1, rhs, cond: Cond::True });
                let cond_of = |c: u8| match c % 8 {
                    0 => Cond::True,
                    1 => Cond::BitSet(0),
                    2 => Cond::BitSet(1),
                    3 => Cond::BitClear(0),
                    4 => Cond::BitClear(1),
                    5 => Cond::Or(Box::new(Cond::BitSet(0)), Box::new(Cond::BitSet(1))),
                    6 => Cond::And(Box::new(Cond::BitSet(0)), Box::new(Cond::BitSet(1))),
                    _ => Cond::Not(Box::new(Cond::BitSet(1))),
                };
                // the engine rejects a parametric rule whose body never looks at the parameter
                let mut alts = alts.clone();
                if alts.iter().all(|(_, c)| c % 8 == 0) {
                    alts[0].1 = 1;
                }
                for (i, (l, c)) in alts.iter().enumerate() {
                    let l = match l % 4 {
                        0 => "",
                        1 => "a",
                        2 => "b",
                        _ => "d",
                    };
                    pb.alt(i == 0, "q", 2, l, None, cond_of(*c));
                }
            }
            ParamTemplate::Toggle(n) => {
                // letter k toggles bit k: set when clear, clear when set; stop when bit 0 set or all zero
                for k in 0..*n {
                    pb.alt(k == 0, "p", 1, LETTERS[k as usize], Some((1, "p", PExpr::SetBit(k))), Cond::BitClear(k));
                    pb.alt(
                        false,
                        "p",
                        1,
                        &LETTERS[k as usize].to_uppercase(),
                        Some((1, "p", PExpr::ClearBit(k))),
                        Cond::Not(Box::new(Cond::BitClear(k))),
                    );
                }
                pb.alt(false, "p", 1, "!", Some((1, "p", PExpr::BitAnd(1))), Cond::Cmp(Cmp::Ge, 1, 6, 1));
                pb.alt(false, "p", 1, "?", Some((1, "p", PExpr::BitOr(0b110))), Cond::Cmp(Cmp::Eq, 0, 6, 0));
                pb.alt(
                    false,
                    "p",
                    1,
                    ".",
                    None,
                    Cond::Or(Box::new(Cond::BitSet(0)), Box::new(Cond::Cmp(Cmp::Ne, 1, 3, 0))),
                );
            }
        }
        let bnf = Bnf {
            prods: pb.prods,
            n_nts,
            start: 0,
            start_param: 0,
            names,
        };
        (pb.lark, bnf)
    }
}

pub fn param_template() -> impl Strategy<Value = ParamTemplate> {
    prop_oneof![
        (2u8..=4).prop_map(ParamTemplate::Perm),
        (2u8..=3).prop_map(ParamTemplate::AtLeastOnce),
        (1u8..=6).prop_map(ParamTemplate::Counter),
        proptest::collection::vec(1u8..=3, 2..=3).prop_map(ParamTemplate::Caps),
        (2u8..=5, 0u8..=2, 1u8..=3).prop_map(|(n, lo, d)| ParamTemplate::Unique { n, lo, hi: (lo + d).min(n).max(lo.max(1)) }),
        (1u8..=5).prop_map(ParamTemplate::UpDown),
        (2u8..=3).prop_map(ParamTemplate::Toggle),
        (1u8..=5, 0u8..3).prop_map(|(k, op)| ParamTemplate::AliasChain { k, op }),
        (1u8..=4, 1u8..=3).prop_map(|(k, depth)| ParamTemplate::Grouped { k, depth }),
        (proptest::collection::vec((0u8..4, 0u8..8), 1..=4), 1u8..16).prop_map(|(alts, consts)| ParamTemplate::Guarded { alts, consts }),
        (proptest::collection::vec((0u8..2, 1u8..8), 1..=3), 1u8..16).prop_map(|(alts, consts)| ParamTemplate::Guarded { alts, consts }),
        (proptest::collection::vec((0u8..4, 0u8..8), 1..=4), 1u8..16).prop_map(|(alts, consts)| ParamTemplate::Suffixed { alts, consts }),
        (proptest::collection::vec((1u8..4, 1u8..8), 2..=4), 3u8..16).prop_map(|(alts, consts)| ParamTemplate::Suffixed { alts, consts }),
    ]
}

// ------------------------------------------------------------------------------------------
// random CFGs
// ------------------------------------------------------------------------------------------

fn expr_strategy(n_terms: usize, n_rules: usize) -> BoxedStrategy<Expr> {
    let leaf = prop_oneof![
        6 => (0..n_terms).prop_map(Expr::T),
        4 => (0..n_rules).prop_map(Expr::N),
        1 => Just(Expr::Empty),
    ];
    leaf.prop_recursive(3, 12, 3, |inner| {
        prop_oneof![
            5 => proptest::collection::vec(inner.clone(), 2..=3).prop_map(Expr::Seq),
            2 => proptest::collection::vec(inner.clone(), 2..=3).prop_map(Expr::Alt),
            1 => inner.clone().prop_map(|x| Expr::Opt(Box::new(x))),
            1 => inner.clone().prop_map(|x| Expr::Maybe(Box::new(x))),
            1 => inner.clone().prop_map(|x| Expr::Star(Box::new(x))),
            1 => inner.clone().prop_map(|x| Expr::Plus(Box::new(x))),
            2 => (inner, 0u32..=2, 1u32..=3, proptest::bool::weighted(0.2)).prop_map(|(x, m, d, unb)| {
                if unb { Expr::Rep(Box::new(x), m, None) } else { Expr::Rep(Box::new(x), m, Some(m + d)) }
            }),
        ]
    })
    .boxed()
}

/// structural shapes forced in with some weight (recursion kinds, nullable chains, ambiguity)
fn shape(n_rules: usize, n_terms: usize) -> BoxedStrategy<(usize, Vec<Expr>)> {
    let t = move || (0..n_terms).prop_map(Expr::T);
    let r = move || 0..n_rules;
    prop_oneof![
        // left recursion: A: A t | t
        (r(), t(), t()).prop_map(|(a, x, y)| (a, vec![Expr::Seq(vec![Expr::N(a), x]), y])),
        // right recursion: A: t A | t
        (r(), t(), t()).prop_map(|(a, x, y)| (a, vec![Expr::Seq(vec![x, Expr::N(a)]), y])),
        // nested: A: t A t | ""
        (r(), t(), t()).prop_map(|(a, x, y)| (a, vec![Expr::Seq(vec![x, Expr::N(a), y]), Expr::Empty])),
        // ambiguity: A: A A | t | ""
        (r(), t()).prop_map(|(a, x)| (a, vec![Expr::Seq(vec![Expr::N(a), Expr::N(a)]), x, Expr::Empty])),
        // duplicated alternative
        (r(), t()).prop_map(|(a, x)| (a, vec![x.clone(), x])),
        // a long bounded repetition of one terminal (the builder factors "at most n" differently from n = 12 on): A: t{m,m+d} x
        (r(), t(), t(), 0u32..=3, 12u32..=19).prop_map(|(a, e, x, m, d)| (a, vec![Expr::Seq(vec![Expr::Rep(Box::new(e), m, Some(m + d)), x])])),
        // nullable chain: A: B C ; (B, C nullable elsewhere or not)
        (r(), r(), r(), t()).prop_map(|(a, b, c, x)| (a, vec![Expr::Seq(vec![Expr::Opt(Box::new(Expr::N(b))), Expr::Star(Box::new(Expr::N(c))), x])])),
        // mutual recursion: A: t B | t
        (r(), r(), t(), t()).prop_map(|(a, b, x, y)| (a, vec![Expr::Seq(vec![x, Expr::N(b)]), y])),
        // the same element repeated at two sites whose counts are related: A: e{m,m+k} t e{k} (or e{k,} / e{k,k+j}), either order
        (r(), prop_oneof![r().prop_map(Expr::N), t()], t(), 0u32..=2, 1u32..=3, 0u8..3, 1u32..=2, any::<bool>()).prop_map(|(a, e, x, m, k, kind, j, swap)| {
            let bounded = Expr::Rep(Box::new(e.clone()), m, Some(m + k));
            let exact = match kind {
                0 => Expr::Rep(Box::new(e), k, Some(k)),
                1 => Expr::Rep(Box::new(e), k, None),
                _ => Expr::Rep(Box::new(e), k, Some(k + j)),
            };
            let seq = if swap { vec![exact, x, bounded] } else { vec![bounded, x, exact] };
            (a, vec![Expr::Seq(seq)])
        }),
    ]
    .boxed()
}

pub fn cfg_strategy() -> BoxedStrategy<Cfg> {
    let pool = term_pool();
    (1usize..=5, proptest::sample::subsequence((0..pool.len()).collect::<Vec<_>>(), 2..=6))
        .prop_flat_map(move |(n_rules, term_idx)| {
            let terms: Vec<Term> = term_idx.iter().map(|&i| pool[i].clone()).collect();
            let nt = terms.len();
            let rules = proptest::collection::vec(proptest::collection::vec(expr_strategy(nt, n_rules), 1..=3), n_rules..=n_rules);
            let shapes = proptest::collection::vec(shape(n_rules, nt), 0..=2);
            (Just(terms), rules, shapes)
        })
        .prop_map(|(terms, mut rules, shapes)| {
            for (a, alts) in shapes {
                // add the shape's alternatives to rule a
                rules[a].extend(alts);
            }
            let mut g = Cfg { terms, rules };
            g.repair();
            g
        })
        .boxed()
}

/// A grammar handed to the engine together with its reference
#[derive(Clone, Debug, Serialize, Deserialize, PartialEq, Eq, Hash)]
pub enum CfgCase {
    Plain(Cfg),
    Param(ParamTemplate),
}

impl CfgCase {
    pub fn build(&self) -> (GrammarSpec, Bnf) {
        match self {
            CfgCase::Plain(g) => (g.grammar(), g.to_bnf()),
            CfgCase::Param(t) => {
                let (l, b) = t.build();
                (GrammarSpec::Lark(l), b)
            }
        }
    }
    pub fn features(&self) -> Vec<&'static str> {
        match self {
            CfgCase::Plain(g) => g.features(),
            CfgCase::Param(_) => vec!["parametric", "right_rec"],
        }
    }
}

pub fn cfg_case() -> BoxedStrategy<CfgCase> {
    prop_oneof![
        5 => cfg_strategy().prop_map(CfgCase::Plain),
        2 => param_template().prop_map(CfgCase::Param),
    ]
    .boxed()
}

/// Random CFGs with an `%ignore` lexeme.  They are used by the relational checks only (C01, C02,
/// C10, C11, ...): the reference recogniser does not model skipped lexemes, so C05 never sees them.
pub fn cfg_with_ignore() -> BoxedStrategy<GrammarSpec> {
    let pool = vec![
        Term::Lit("\n".into()),
        Term::Lit("a".into()),
        Term::Lit("bb".into()),
        Term::Lit("c".into()),
        Term::Lit("d".into()),
        Term::Lit("(".into()),
        Term::Lit(")".into()),
        Term::Class(vec![b'x', b'y', b'z']),
        Term::Class(vec![b'0', b'1', b'2', b'3']),
    ];
    let ign = prop_oneof![Just("%ignore / +/\n"), Just("%ignore /[ \\t]+/\n"), Just("%ignore /#[a-z]*;/\n"), Just("%llguidance { \"ignore_once\": true }\n%ignore / {1,3}/\n")];
    (1usize..=4, proptest::sample::subsequence((0..pool.len()).collect::<Vec<_>>(), 2..=6), ign)
        .prop_flat_map(move |(n_rules, term_idx, ign)| {
            let terms: Vec<Term> = term_idx.iter().map(|&i| pool[i].clone()).collect();
            let nt = terms.len();
            let rules = proptest::collection::vec(proptest::collection::vec(expr_strategy(nt, n_rules), 1..=3), n_rules..=n_rules);
            (Just(terms), rules, Just(ign))
        })
        .prop_map(|(terms, rules, ign)| {
            let mut g = Cfg { terms, rules };
            g.repair();
            GrammarSpec::Lark(format!("{}{}", g.to_lark(), ign))
        })
        .boxed()
}

pub fn cfg_grammar() -> BoxedStrategy<GrammarSpec> {
    cfg_case().prop_map(|c| c.build().0).boxed()
}

/// byte alphabet of a BNF (all bytes occurring in terminals)
pub fn alphabet(b: &Bnf) -> Vec<u8> {
    let mut s = BTreeSet::new();
    for p in &b.prods {
        for x in &p.rhs {
            if let BSym::Bytes(bs) = x {
                for c in 0..=255u8 {
                    if bs.has(c) {
                        s.insert(c);
                    }
                }
            }
        }
    }
    s.into_iter().collect()
}

pub type PairMap = HashMap<(usize, u64), bool>;

#[cfg(test)]
mod tests {
    use super::*;

    #[test]
    fn perm3() {
        let (_l, b) = ParamTemplate::Perm(3).build();
        let a = b.analyse().unwrap();
        assert!(a.all_productive);
        for s in ["abc", "acb", "bac", "bca", "cab", "cba"] {
            assert!(accepts(&a, s.as_bytes()), "{}", s);
        }
        for s in ["", "a", "ab", "aab", "abca", "abcd"] {
            assert!(!accepts(&a, s.as_bytes()), "{}", s);
        }
        let mut c = Chart::new(&a);
        assert!(c.push(b'a'));
        assert!(!c.push(b'a'));
        assert!(c.push(b'c'));
    }

    #[test]
    fn dyck() {
        let g = Cfg {
            terms: vec![Term::Lit("(".into()), Term::Lit(")".into())],
            rules: vec![vec![Expr::Seq(vec![Expr::T(0), Expr::N(0), Expr::T(1), Expr::N(0)]), Expr::Empty]],
        };
        let b = g.to_bnf();
        let a = b.analyse().unwrap();
        assert!(accepts(&a, b""));
        assert!(accepts(&a, b"()(())"));
        assert!(!accepts(&a, b"(()"));
        assert!(!accepts(&a, b")("));
    }

    #[test]
    fn rep_bounds() {
        let g = Cfg {
            terms: vec![Term::Lit("a".into())],
            rules: vec![vec![Expr::Rep(Box::new(Expr::T(0)), 2, Some(4))]],
        };
        let b = g.to_bnf();
        let a = b.analyse().unwrap();
        for k in 0..7 {
            assert_eq!(accepts(&a, "a".repeat(k).as_bytes()), (2..=4).contains(&k));
        }
    }
}
