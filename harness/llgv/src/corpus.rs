//! Hand-collected grammars from the repository's documentation, samples and tests
//! (core fragment only: no max_tokens=, stop=, temperature=).

use crate::engine::GrammarSpec;
use serde_json::json;

pub const LARK: &[&str] = &[
    // docs/syntax.md
    "start: TEXT | fun_call\nTEXT: /[^{](.|\\n)*/\nfun_call: %json {\"type\":\"object\",\"properties\":{\"name\":{\"const\":\"get_weather\"},\"parameters\":{\"type\":\"object\",\"properties\":{\"city\":{\"type\":\"string\"}},\"required\":[\"city\"]}},\"required\":[\"name\",\"parameters\"]}\n",
    "start: ( f_foo | f_bar )* f_end\nf_end: TEXT\nTEXT: /(.|\\n)*/\nf_foo_hd[lazy]: TEXT \"<function\"\nf_foo: f_foo_hd \"=foo>\" %json { \"type\": \"object\" } \"</function>\"\nf_bar_hd[lazy]: TEXT \"<function\"\nf_bar: f_bar_hd \"=bar>\" /[0-9]+/ \"</function>\"\n",
    "start: ASCII_LINES\nASCII_LINES: /[a-zA-Z \\n]*/ & ~/(?s:.*)\\n\\n(?s:.*)/\n",
    "start: INT\nINT: \"-\"? UINT\nUINT: DIGIT+\nDIGIT: /[0-9]/\n",
    "start: X\nX: %regex { \"substring_chunks\": [\"abc\", \"de\", \"fg\"] }\n",
    "start: X\nX: %regex { \"substring_words\": \"foo bar. baz\" }\n",
    "%llguidance { \"ignore_once\": true }\n%ignore /[ \\t]{1,8}/\nstart: \"A\" \"!\"\n",
    "expr: expr \"+\" term | term\nterm: term \"*\" factor | factor\nfactor: \"(\" expr \")\" | NUMBER\nNUMBER: /[0-9]+/\nstart: expr\n",
    "start: many\none: \"a\" | \"bc\"\nmany: many one | one\n",
    "start: many\none: \"a\" | \"bc\"\nmany: one many | one\n",
    "start: one{2,5}\none: \"a\" | \"bc\"\n",
    // docs/parametric.md
    "start    :  perm::0x0\nperm::_  :  \"\"                       %if is_ones([0:3])\n         |  \"a\" perm::set_bit(0)     %if bit_clear(0)\n         |  \"b\" perm::set_bit(1)     %if bit_clear(1)\n         |  \"c\" perm::set_bit(2)     %if bit_clear(2)\n",
    "start    :  perm::0x0\nperm::_  :  \"\"                       %if is_ones([0:3])\n         |  \"a\" perm::set_bit(0)\n         |  \"b\" perm::set_bit(1)\n         |  \"c\" perm::set_bit(2)\n",
    "start  : aa::0\naa::_  : \"a\" aa::incr(_)    %if lt(_, 6)\n       | bb::_\nbb::_  : \"b\" bb::incr(_)    %if lt(_, 6)\n       | \"\"\n",
    "start  : lst::0x0\nlst::_ : \"a\" lst::incr([0:3])  %if lt([0:3], 3)\n       | \"b\" lst::incr([3:6])  %if lt([3:6], 2)\n       | \"c\" lst::incr([6:9])  %if lt([6:9], 4)\n       | \"\"\n",
    "start    :  perm::0x0\nperm::_  :  \"\"                       %if bit_count_ge(_, 1)\n         |  \"a\" perm::set_bit(0)     %if and(bit_clear(0), bit_count_lt(_, 3))\n         |  \"b\" perm::set_bit(1)     %if and(bit_clear(1), bit_count_lt(_, 3))\n         |  \"c\" perm::set_bit(2)     %if and(bit_clear(2), bit_count_lt(_, 3))\n         |  \"d\" perm::set_bit(3)     %if and(bit_clear(3), bit_count_lt(_, 3))\n         |  \"e\" perm::set_bit(4)     %if and(bit_clear(4), bit_count_lt(_, 3))\n",
    // classics
    "start: json\njson: obj | arr | STR | NUM | \"true\" | \"false\" | \"null\"\nobj: \"{\" [pair (\",\" pair)*] \"}\"\npair: STR \":\" json\narr: \"[\" [json (\",\" json)*] \"]\"\nSTR: /\"[a-z]*\"/\nNUM: /-?(0|[1-9][0-9]*)/\n%ignore /[ \\n]+/\n",
    "start: s\ns: \"(\" s \")\" s | \"\"\n",
    "start: a b c\na: \"x\"*\nb: (\"y\" | \"yy\")?\nc: \"z\"+\n",
    "start: /[a-z]+/ \"=\" /[0-9]{1,3}/ (\";\" /[a-z]+/ \"=\" /[0-9]{1,3}/)*\n",
    "start: \"SELECT \" cols \" FROM \" NAME (\" WHERE \" cond)?\ncols: NAME (\", \" NAME)*\ncond: NAME \" = \" /[0-9]+/\nNAME: /[a-z_]+/\n",
    "start: <|tool|> \"x\" | \"y\"\n",
    "start: \"a\" <[0-3]> \"b\"\n",
    "start: word (\" \" word)*\nword: /[a-zé€😀]{1,4}/\n",
    "start: KW | ID\nKW: \"if\" | \"else\"\nID: /[a-z]+/\n",
    "start: stmt*\nstmt: \"if\" cond \"then\" stmt | ID \"=\" NUM \";\"\ncond: ID \"<\" NUM\nID: /[a-z]+/\nNUM: /[0-9]+/\n%ignore / +/\n",
    "start: foo\nfoo[capture]: /[a-z]+/ \"!\"\n",
    "start: hd body\nhd[lazy]: /.*:/\nbody: /[0-9]+/\n",
    "start: q\nq[suffix=\"\\n\"]: /[a-z ]*/\n",
    "start: %lark { start: \"a\" B\nB: /b+/ } \"c\"\n",
];

pub fn json_schemas() -> Vec<serde_json::Value> {
    vec![
        json!({"type":"object"}),
        json!({}),
        json!({"type":"object","required":["title","content","author"],"additionalProperties":false,"properties":{
            "title":{"type":"string"},"content":{"type":"string"},"publishedDate":{"type":"string"},
            "author":{"type":"object","properties":{"username":{"type":"string"},"age":{"type":"integer"},"interests":{"type":"array","items":{"type":"string"}}},"additionalProperties":false},
            "tags":{"type":"array","items":{"type":"string"}}}}),
        json!({"x-guidance":{"whitespace_flexible":false},"type":"object","properties":{"claudius":{"type":"string","const":"Welcome, dear Rosencrantz!\nMoreover "}},"required":["claudius"],"additionalProperties":false}),
        json!({"type":"integer","minimum":-5,"maximum":120}),
        json!({"type":"number","exclusiveMinimum":0,"maximum":9.5}),
        json!({"type":"integer","multipleOf":3,"minimum":1,"maximum":40}),
        json!({"type":"string","minLength":2,"maxLength":5}),
        json!({"type":"string","pattern":"^[a-c]{2,4}-[0-9]+$"}),
        json!({"type":"string","format":"date"}),
        json!({"type":"string","format":"uuid"}),
        json!({"type":"array","items":{"type":"integer"},"minItems":1,"maxItems":3}),
        json!({"type":"array","prefixItems":[{"type":"boolean"},{"type":"string"}],"items":{"type":"null"},"minItems":1,"maxItems":4}),
        json!({"enum":["a","ab","abc",1,null,true,{"x":1},[1,2]]}),
        json!({"const":{"k":[1,"two",null]}}),
        json!({"anyOf":[{"type":"integer"},{"type":"string","maxLength":3},{"type":"array","items":{"type":"boolean"}}]}),
        json!({"oneOf":[{"type":"integer"},{"type":"string"}]}),
        json!({"allOf":[{"type":"integer","minimum":3},{"maximum":40,"multipleOf":2}]}),
        json!({"type":"object","properties":{"a":{"type":"integer"},"b":{"type":"string"}},"required":["b"],"additionalProperties":{"type":"boolean"}}),
        json!({"type":"object","patternProperties":{"^x":{"type":"integer"}},"additionalProperties":false,"maxProperties":2}),
        json!({"type":"object","additionalProperties":{"type":"integer"},"minProperties":1,"maxProperties":2}),
        json!({"$defs":{"node":{"type":"object","properties":{"v":{"type":"integer"},"next":{"anyOf":[{"$ref":"#/$defs/node"},{"type":"null"}]}},"required":["v","next"],"additionalProperties":false}},"$ref":"#/$defs/node"}),
        json!({"type":["integer","null","string"]}),
        json!({"type":"object","properties":{"name":{"const":"get_weather"},"parameters":{"type":"object","properties":{"city":{"type":"string"}},"required":["city"]}},"required":["name","parameters"]}),
        json!({"x-guidance":{"whitespace_flexible":true},"type":"object","properties":{"a":{"type":"array","items":{"type":"number"}}},"required":["a"]}),
        json!({"x-guidance":{"item_separator":", ","key_separator":": "},"type":"object","properties":{"a":{"type":"integer"},"b":{"type":"integer"}},"required":["a","b"],"additionalProperties":false}),
        json!({"type":"object","properties":{"enumkey":{"enum":["prefix","prefix_more","pre"]},"z":{"const":"zz"}},"required":["enumkey","z"],"additionalProperties":false}),
    ]
}

pub const REGEX: &[&str] = &[
    "[a-z]+@[a-z]+\\.(com|org)",
    "(0|[1-9][0-9]*)(\\.[0-9]+)?([eE][+-]?[0-9]+)?",
    "\"([^\"\\\\\\x00-\\x1F\\x7F]|\\\\[\"\\\\/bfnrt])*\"",
    "(?i)select|insert|update",
    "[\\p{L}]+",
    "\\d{3}-\\d{4}",
    "a{2,4}b{0,2}|c+",
    "(.|\\n)*",
    "[^a]*a[^a]*",
    "é+|€{2}|😀?x",
];

pub fn all() -> Vec<GrammarSpec> {
    let mut v = Vec::new();
    for l in LARK {
        v.push(GrammarSpec::Lark(l.to_string()));
    }
    for j in json_schemas() {
        v.push(GrammarSpec::Json(j));
    }
    for r in REGEX {
        v.push(GrammarSpec::Regex(r.to_string()));
    }
    v
}
