//! Thin wrapper around the public llguidance API.

use crate::vocab::Vocab;
use anyhow::Result;
use llguidance::api::{ParserLimits, TopLevelGrammar};
use llguidance::toktrie::{InferenceCapabilities, SimpleVob};
use llguidance::{Matcher, ParserFactory};
use serde::{Deserialize, Serialize};

#[derive(Clone, Debug, Serialize, Deserialize, PartialEq)]
pub enum GrammarSpec {
    Lark(String),
    Regex(String),
    Json(serde_json::Value),
}

impl GrammarSpec {
    pub fn top(&self) -> TopLevelGrammar {
        match self {
            GrammarSpec::Lark(s) => TopLevelGrammar::from_lark(s.clone()),
            GrammarSpec::Regex(s) => TopLevelGrammar::from_regex(s),
            GrammarSpec::Json(v) => TopLevelGrammar::from_json_schema(v.clone()),
        }
    }
    pub fn text(&self) -> String {
        match self {
            GrammarSpec::Lark(s) => format!("lark:{}", s),
            GrammarSpec::Regex(s) => format!("regex:{}", s),
            GrammarSpec::Json(v) => format!("json:{}", v),
        }
    }
    pub fn kind(&self) -> &'static str {
        match self {
            GrammarSpec::Lark(_) => "lark",
            GrammarSpec::Regex(_) => "regex",
            GrammarSpec::Json(_) => "json",
        }
    }
}

pub fn factory_ext(
    vocab: &Vocab,
    slices: &[String],
    caps: InferenceCapabilities,
    limits: Option<ParserLimits>,
) -> Result<ParserFactory> {
    let mut f = ParserFactory::new(&vocab.env, caps, slices)?;
    f.quiet();
    if let Some(l) = limits {
        *f.limits_mut() = l;
    }
    Ok(f)
}

/// factory without slices, no special capabilities, default limits
pub fn factory(vocab: &Vocab) -> ParserFactory {
    factory_ext(vocab, &[], InferenceCapabilities::default(), None).expect("factory")
}

/// A Matcher; compile errors end up as `is_error()`.
pub fn matcher(f: &ParserFactory, g: &GrammarSpec) -> Matcher {
    Matcher::new(f.create_parser(g.top()))
}

/// A Matcher or the compile error.
pub fn try_matcher(f: &ParserFactory, g: &GrammarSpec) -> Result<Matcher, String> {
    let m = matcher(f, g);
    match m.get_error() {
        Some(e) => Err(e),
        None => Ok(m),
    }
}

pub fn mask_words(m: &SimpleVob, vocab: usize) -> Vec<u32> {
    let w = vocab.div_ceil(32);
    m.as_slice()[..w.min(m.as_slice().len())].to_vec()
}

pub fn mask_list(m: &SimpleVob, vocab: usize) -> Vec<u32> {
    let mut r = Vec::new();
    for t in 0..vocab {
        if m.is_allowed(t as u32) {
            r.push(t as u32);
        }
    }
    r
}

/// short first line of an error message (engine errors append state dumps)
pub fn short_err(e: &str) -> String {
    let l = e.lines().next().unwrap_or("");
    crate::util::truncate_str(l, 300)
}

/// is this error message one of the documented resource-limit stops
pub fn is_limit_error(msg: &str) -> bool {
    let m = msg.to_ascii_lowercase();
    m.contains("too many items")
        || m.contains("too complex")
        || m.contains("fuel")
        || m.contains("too many")
        || m.contains("too large")
        || m.contains("limit")
        || m.contains("too big")
        || m.contains("max is")
        || m.contains("exhausted")
}

/// factory with tightened Earley limits: pathological (exponentially ambiguous) grammars hit the
/// documented limit stop quickly instead of burning the default 50k items per mask
pub fn factory_tight(vocab: &Vocab) -> ParserFactory {
    let mut l = ParserLimits::default();
    if std::env::var("VERIF_DEFAULT_LIMITS").is_err() {
        l.step_max_items = 6000;
        l.max_items_in_row = 500;
        // ~1-2 kB per lexer state: keep a pathological case below a few tens of MB
        l.max_lexer_states = 20_000;
        l.initial_lexer_fuel = 300_000;
        l.step_lexer_fuel = 60_000;
    }
    factory_ext(vocab, &[], InferenceCapabilities::default(), Some(l)).expect("factory")
}

/// Two known internal panics of grammars with hidden `stop=` lexemes (see known_findings.json);
/// returns the finding's key suffix for an engine error message.
pub fn hidden_stop_panic(err: &str) -> Option<&'static str> {
    if err.contains("assertion failed: bt == 0") {
        Some("forced-byte-completes-hidden-stop-panics")
    } else if err.contains("panic: num_rows=") && err.contains("row_infos=") {
        Some("hidden-stop-overlapping-committed-bytes-panics")
    } else {
        None
    }
}
