//! Own format checkers (RFC 3339, ISO 8601 durations as in RFC 3339 app. A, RFC 5321-ish
//! mailbox, RFC 1123 hostname, RFC 2673 ipv4, RFC 4291 ipv6, RFC 4122 uuid, RFC 3986 uri).
//! They are used together with the `jsonschema` crate: a format violation is only reported
//! when *both* reject.

fn digits(s: &[u8]) -> bool {
    !s.is_empty() && s.iter().all(|c| c.is_ascii_digit())
}

fn num(s: &[u8]) -> u32 {
    std::str::from_utf8(s).unwrap().parse().unwrap()
}

fn leap(y: u32) -> bool {
    (y % 4 == 0 && y % 100 != 0) || y % 400 == 0
}

pub fn date(s: &str) -> bool {
    let b = s.as_bytes();
    if b.len() != 10 || b[4] != b'-' || b[7] != b'-' || !digits(&b[0..4]) || !digits(&b[5..7]) || !digits(&b[8..10]) {
        return false;
    }
    let (y, m, d) = (num(&b[0..4]), num(&b[5..7]), num(&b[8..10]));
    if !(1..=12).contains(&m) || d == 0 {
        return false;
    }
    let dim = match m {
        1 | 3 | 5 | 7 | 8 | 10 | 12 => 31,
        4 | 6 | 9 | 11 => 30,
        _ => {
            if leap(y) {
                29
            } else {
                28
            }
        }
    };
    d <= dim
}

/// returns (ok, seconds==60, utc hour, utc minute) for a full-time
fn time_parts(s: &str) -> Option<(bool, u32, u32)> {
    let b = s.as_bytes();
    if b.len() < 9 || b[2] != b':' || b[5] != b':' || !digits(&b[0..2]) || !digits(&b[3..5]) || !digits(&b[6..8]) {
        return None;
    }
    let (h, m, sec) = (num(&b[0..2]), num(&b[3..5]), num(&b[6..8]));
    if h > 23 || m > 59 || sec > 60 {
        return None;
    }
    let mut i = 8;
    if b[i] == b'.' {
        i += 1;
        let st = i;
        while i < b.len() && b[i].is_ascii_digit() {
            i += 1;
        }
        if i == st {
            return None;
        }
    }
    if i >= b.len() {
        return None;
    }
    let (oh, om, sign): (i32, i32, i32) = if b[i] == b'Z' || b[i] == b'z' {
        if i + 1 != b.len() {
            return None;
        }
        (0, 0, 1)
    } else if b[i] == b'+' || b[i] == b'-' {
        let r = &b[i + 1..];
        if r.len() != 5 || r[2] != b':' || !digits(&r[0..2]) || !digits(&r[3..5]) {
            return None;
        }
        let (oh, om) = (num(&r[0..2]) as i32, num(&r[3..5]) as i32);
        if oh > 23 || om > 59 {
            return None;
        }
        (oh, om, if b[i] == b'+' { 1 } else { -1 })
    } else {
        return None;
    };
    if sec == 60 {
        // leap second only at 23:59:60 UTC
        let total = (h as i32 * 60 + m as i32) - sign * (oh * 60 + om);
        let total = total.rem_euclid(24 * 60);
        if total != 23 * 60 + 59 {
            return Some((false, h, m));
        }
    }
    Some((true, h, m))
}

pub fn time(s: &str) -> bool {
    matches!(time_parts(s), Some((true, _, _)))
}

pub fn date_time(s: &str) -> bool {
    let b = s.as_bytes();
    if b.len() < 11 || !s.is_char_boundary(10) {
        return false;
    }
    if !(b[10] == b'T' || b[10] == b't') {
        return false;
    }
    date(&s[..10]) && time(&s[11..])
}

pub fn duration(s: &str) -> bool {
    // RFC 3339 appendix A
    let b = s.as_bytes();
    if b.len() < 2 || b[0] != b'P' {
        return false;
    }
    let rest = &s[1..];
    if let Some(w) = rest.strip_suffix('W') {
        return digits(w.as_bytes());
    }
    let (d, t) = match rest.find('T') {
        Some(i) => (&rest[..i], Some(&rest[i + 1..])),
        None => (rest, None),
    };
    fn seq(s: &str, units: &[u8]) -> Option<usize> {
        // digits+unit in order, each at most once; returns the number of components
        let b = s.as_bytes();
        let mut i = 0;
        let mut ui = 0;
        let mut n = 0;
        while i < b.len() {
            let st = i;
            while i < b.len() && b[i].is_ascii_digit() {
                i += 1;
            }
            if i == st || i >= b.len() {
                return None;
            }
            let u = b[i];
            let pos = units[ui..].iter().position(|x| *x == u)?;
            ui += pos + 1;
            i += 1;
            n += 1;
        }
        Some(n)
    }
    let nd = match seq(d, b"YMD") {
        Some(n) => n,
        None => return false,
    };
    match t {
        None => nd > 0,
        Some(t) => match seq(t, b"HMS") {
            Some(nt) => nt > 0,
            None => false,
        },
    }
}

pub fn ipv4(s: &str) -> bool {
    let p: Vec<&str> = s.split('.').collect();
    p.len() == 4
        && p.iter().all(|x| {
            digits(x.as_bytes()) && x.len() <= 3 && (x.len() == 1 || !x.starts_with('0')) && x.parse::<u32>().is_ok_and(|v| v <= 255)
        })
}

pub fn ipv6(s: &str) -> bool {
    if s.contains('%') || !s.is_ascii() {
        return false;
    }
    s.parse::<std::net::Ipv6Addr>().is_ok()
}

pub fn uuid(s: &str) -> bool {
    let b = s.as_bytes();
    b.len() == 36
        && b.iter().enumerate().all(|(i, c)| match i {
            8 | 13 | 18 | 23 => *c == b'-',
            _ => c.is_ascii_hexdigit(),
        })
}

pub fn hostname(s: &str) -> bool {
    if s.is_empty() || s.len() > 253 {
        return false;
    }
    s.split('.').all(|l| {
        let b = l.as_bytes();
        !b.is_empty()
            && b.len() <= 63
            && b.iter().all(|c| c.is_ascii_alphanumeric() || *c == b'-')
            && b[0] != b'-'
            && b[b.len() - 1] != b'-'
            // labels with -- in position 3,4 are reserved (punycode must be valid)
            && !(b.len() >= 4 && b[2] == b'-' && b[3] == b'-')
    })
}

pub fn email(s: &str) -> bool {
    let at = match s.rfind('@') {
        Some(i) => i,
        None => return false,
    };
    let (local, domain) = (&s[..at], &s[at + 1..]);
    if local.is_empty() || local.len() > 64 || domain.is_empty() {
        return false;
    }
    let local_ok = if local.starts_with('"') {
        local.len() >= 2 && local.ends_with('"')
    } else {
        !local.starts_with('.')
            && !local.ends_with('.')
            && !local.contains("..")
            && local.bytes().all(|c| c.is_ascii_alphanumeric() || b"!#$%&'*+-/=?^_`{|}~.".contains(&c))
    };
    let domain_ok = if domain.starts_with('[') {
        domain.ends_with(']') && {
            let inner = &domain[1..domain.len() - 1];
            ipv4(inner) || inner.strip_prefix("IPv6:").is_some_and(ipv6)
        }
    } else {
        hostname(domain)
    };
    local_ok && domain_ok
}

pub fn uri(s: &str) -> bool {
    // RFC 3986: scheme ":" hier-part [ "?" query ] [ "#" fragment ], ASCII only, valid pct-encoding
    if !s.is_ascii() {
        return false;
    }
    let b = s.as_bytes();
    let colon = match s.find(':') {
        Some(i) => i,
        None => return false,
    };
    let scheme = &b[..colon];
    if scheme.is_empty() || !scheme[0].is_ascii_alphabetic() || !scheme.iter().all(|c| c.is_ascii_alphanumeric() || b"+-.".contains(c)) {
        return false;
    }
    let rest = &b[colon + 1..];
    let mut i = 0;
    let mut seen_hash = false;
    while i < rest.len() {
        let c = rest[i];
        if c == b'%' {
            if i + 2 >= rest.len() {
                return false;
            }
            if !(rest[i + 1].is_ascii_hexdigit() && rest[i + 2].is_ascii_hexdigit()) {
                return false;
            }
            i += 3;
            continue;
        }
        if c == b'#' {
            if seen_hash {
                return false;
            }
            seen_hash = true;
        } else if !(c.is_ascii_alphanumeric() || b"-._~:/?[]@!$&'()*+,;=".contains(&c)) {
            return false;
        }
        i += 1;
    }
    true
}

/// `None`: format unknown to this reference
pub fn check(format: &str, s: &str) -> Option<bool> {
    Some(match format {
        "date" => date(s),
        "time" => time(s),
        "date-time" => date_time(s),
        "duration" => duration(s),
        "ipv4" => ipv4(s),
        "ipv6" => ipv6(s),
        "uuid" => uuid(s),
        "hostname" => hostname(s),
        "email" => email(s),
        "uri" => uri(s),
        _ => return None,
    })
}

pub const FORMATS: &[&str] = &["date-time", "time", "date", "duration", "email", "hostname", "ipv4", "ipv6", "uuid", "uri"];

#[cfg(test)]
mod tests {
    use super::*;
    #[test]
    fn samples() {
        assert!(date("2024-02-29"));
        assert!(!date("2023-02-29"));
        assert!(!date("2023-13-01"));
        assert!(time("23:59:60Z"));
        assert!(!time("22:59:60Z"));
        assert!(time("12:00:00.5+01:30"));
        assert!(!time("12:00:00"));
        assert!(date_time("2020-01-01T00:00:00Z"));
        assert!(duration("P1Y2M3DT4H5M6S"));
        assert!(duration("P4W"));
        assert!(!duration("P"));
        assert!(!duration("PT"));
        assert!(!duration("P1M1Y"));
        assert!(ipv4("255.0.0.1"));
        assert!(!ipv4("256.0.0.1"));
        assert!(!ipv4("01.0.0.1"));
        assert!(ipv6("::1"));
        assert!(uuid("123e4567-e89b-12d3-a456-426614174000"));
        assert!(hostname("a-b.example"));
        assert!(!hostname("-a.example"));
        assert!(email("a.b@example.org"));
        assert!(!email("a..b@example.org"));
        assert!(uri("https://example.org/a?b#c"));
        assert!(!uri("//example.org"));
        assert!(!uri("http://a/%zz"));
    }
}
