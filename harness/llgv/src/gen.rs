//! Grammar strategies shared by the properties.

use crate::corpus;
use crate::engine::GrammarSpec;
use crate::rx::{pick_render, rx_strategy, RxOpts};
use proptest::prelude::*;

pub fn regex_grammar(o: RxOpts) -> BoxedStrategy<GrammarSpec> {
    (rx_strategy(o), any::<u8>()).prop_map(|(rx, sel)| pick_render(&rx, sel).1).boxed()
}

pub fn corpus_grammar() -> BoxedStrategy<GrammarSpec> {
    let all = corpus::all();
    (0..all.len()).prop_map(move |i| all[i].clone()).boxed()
}

/// Line-oriented Lark grammars: comments, "rest of the line" terminals, long bounded runs of a wide character class.
/// Their lexeme states contain whole token slices (`[^"\\...]{1,10}`, `{1,30}`, `+` of the default list) but not the
/// whitespace slice, which is the situation the slicer's "remainder" tries exist for.  Relational checks only.
pub fn line_grammar() -> BoxedStrategy<GrammarSpec> {
    let class = prop_oneof![3 => Just("[^\\n]"), 2 => Just("."), 1 => Just("[^\\n\\r]"), 1 => Just("[^\";]"), 1 => Just("[^<]"), 1 => Just("(?s:.)")];
    let rep = prop_oneof![3 => Just("*".to_string()), 1 => Just("+".to_string()), 2 => (0u32..3, 10u32..45).prop_map(|(a, b)| format!("{{{},{}}}", a, b))];
    let term = prop_oneof![3 => Just("\\n"), 1 => Just(";"), 1 => Just("\\r\\n"), 1 => Just("")];
    let shape = 0u8..6;
    (class, rep, term, shape).prop_map(|(cl, rep, term, shape)| {
        let line = format!("/{}{}{}/", cl, rep, term);
        let txt = match shape {
            0 => format!("start: LINE\nLINE: {}\n", line),
            1 => format!("start: LINE+\nLINE: {}\n", line),
            2 => format!("start: (COMMENT | stmt)*\nCOMMENT: /#{}{}{}/\nstmt: /[a-z]+/ \"=\" /[0-9]+/ \";\"\n", cl, rep, term),
            3 => format!("start: \"//\" REST \"!\" /[0-9]/\nREST: {}\n", line),
            4 => format!("start: (KEY \":\" VALUE)+\nKEY: /[a-c]+/\nVALUE: {}\n%ignore /[ \\t]+/\n", line),
            _ => format!("start: \"\\\"\" BODY \"\\\"\"\nBODY: /[^\"]{}/\n", rep),
        };
        GrammarSpec::Lark(txt)
    })
    .boxed()
}

/// Mix of every generator that exists; weights: regex 4, cfg 5, json 4, corpus 2, line-oriented 1.
pub fn any_grammar() -> BoxedStrategy<GrammarSpec> {
    prop_oneof![
        4 => regex_grammar(RxOpts { depth: 3, max_weight: 60, ..RxOpts::default() }),
        3 => crate::cfg::cfg_grammar(),
        2 => crate::cfg::cfg_with_ignore(),
        4 => crate::js::schema_grammar(crate::js::Profile::All),
        2 => corpus_grammar(),
        1 => line_grammar(),
    ]
    .boxed()
}

/// Lark grammars built around "generation-style" lexemes: `stop=` (hidden stop text), `suffix=`
/// (visible), `[lazy]`, `max_tokens=`, each followed by forced or free text.  No reference
/// recogniser models these; they are for the relational checks (state vs. fresh replay, mask vs.
/// commit vs. validate, forced bytes, clones).
pub fn gen_like_grammar(core: bool) -> BoxedStrategy<GrammarSpec> {
    let body_rx = prop_oneof![Just("[a-z]*"), Just("[a-z]+"), Just(".*"), Just("[a-z ]*"), Just("(a|ab)*"), Just("[a-c]{0,6}"), Just("[^;]*")];
    // `core`: only what the core fragment of C01/C12/C13 allows (no stop=, no max_tokens=): visible suffixes and lazy lexemes
    let attr = if core {
        prop_oneof![
            3 => Just("suffix=\"X\""),
            2 => Just("suffix=\";\""),
            2 => Just("suffix=\"ab\""),
            2 => Just("suffix=/[.;]/"),
            1 => Just("suffix=\"\\n\\n\""),
        ]
        .boxed()
    } else {
        gen_attr_full()
    };
    let follow = prop_oneof![
        3 => Just("\"!!\""),
        2 => Just("\"</x>\""),
        1 => Just("\"X\""),
        1 => Just("\";\""),
        1 => Just("\"\""),
        2 => Just("/[0-9]+/"),
        1 => Just("\"ab\" /[0-9]/"),
        1 => Just("(\"!!\" | \"!?\")"),
    ];
    let shape = 0u8..8;
    (body_rx.clone(), attr.clone(), follow.clone(), shape, body_rx, attr, follow).prop_map(|(rx, at, fo, shape, rx2, at2, fo2)| {
        let b1 = format!("body[{}]: /{}/\n", at, rx);
        let b2 = format!("other[{}]: /{}/\n", at2, rx2);
        let txt = match shape {
            0 | 1 => format!("start: body {}\n{}", fo, b1),
            2 => format!("start: (body {})+\n{}", fo, b1),
            3 => format!("start: \"<\" body {} \">\"\n{}", fo, b1),
            4 => format!("start: body {} other {}\n{}{}", fo, fo2, b1, b2),
            5 => format!("start: body other {}\n{}{}", fo2, b1, b2),
            6 => format!("start: body {} | other {}\n{}{}", fo, fo2, b1, b2),
            _ => format!("start: (item)* \"end\"\nitem: body {} | /[0-9]/\n{}", fo, b1),
        };
        GrammarSpec::Lark(txt)
    })
    .boxed()
}

fn gen_attr_full() -> BoxedStrategy<&'static str> {
    prop_oneof![
        3 => Just("stop=\"X\""),
        2 => Just("stop=\";\""),
        2 => Just("stop=\"ab\""),
        2 => Just("stop=/[.;]/"),
        1 => Just("stop=\"\\n\\n\""),
        2 => Just("suffix=\"X\""),
        1 => Just("suffix=/[.;]/"),
        1 => Just("stop=\"\", max_tokens=3"),
        1 => Just("stop=\"X\", max_tokens=4"),
        1 => Just("max_tokens=3"),
    ]
    .boxed()
}

/// does the engine support rollback/reset for this grammar (documented: not with stop= / max_tokens= lexemes)
pub fn supports_rollback(g: &GrammarSpec) -> bool {
    match g {
        GrammarSpec::Lark(s) => !(s.contains("stop=") || s.contains("max_tokens=")),
        _ => true,
    }
}

/// `any_grammar` plus the generation-style grammars with stop= / max_tokens= (C11, C14, C17, C20)
pub fn any_grammar_ext() -> BoxedStrategy<GrammarSpec> {
    prop_oneof![6 => any_grammar(), 1 => gen_like_grammar(false)].boxed()
}

/// `any_grammar` plus generation-style grammars that stay inside the core fragment (suffix= only)
pub fn any_grammar_core_ext() -> BoxedStrategy<GrammarSpec> {
    prop_oneof![8 => any_grammar(), 1 => gen_like_grammar(true)].boxed()
}

/// Lark grammars with token references that exist in every vocabulary of the harness: `<[id]>` and `<[a-b]>` over
/// ordinary byte tokens (ids below 256 are the byte values), `<|eos|>` (every vocabulary names its first special so),
/// in sequences and in alternatives whose references overlap each other or a text alternative.  For the relational
/// checks (mask vs. commit, state vs. fresh replay, rollback): the reference sets themselves are C19's business.
pub fn token_ref_grammar() -> BoxedStrategy<GrammarSpec> {
    let lit = prop_oneof![Just("\"a\""), Just("\"b\""), Just("\"d\""), Just("\"x\""), Just("\"y\""), Just("\"ab\""), Just("/[a-e]/"), Just("/[x-z]+/")];
    let rf = prop_oneof![
        3 => (97u32..106).prop_map(|i| format!("<[{}]>", i)),
        3 => (97u32..104, 0u32..6).prop_map(|(a, d)| format!("<[{}-{}]>", a, a + d)),
        1 => (97u32..104, 0u32..4).prop_map(|(a, d)| format!("<[^0-{},{}-255]>", a - 1, a + d + 1)),
        2 => Just("<|eos|>".to_string()),
    ];
    let seg = prop_oneof![3 => lit.prop_map(|s| s.to_string()), 4 => rf];
    let seq = proptest::collection::vec(seg, 1..5).prop_map(|v| v.join(" "));
    prop_oneof![
        2 => seq.clone().prop_map(|s| format!("start: {}\n", s)),
        3 => (seq.clone(), seq.clone()).prop_map(|(a, b)| format!("start: {} | {}\n", a, b)),
        1 => (seq.clone(), seq.clone(), seq).prop_map(|(a, b, c)| format!("start: {} ( {} | {} )\n", a, b, c)),
        1 => Just("start: \"a\" <[100]> \"b\"\n".to_string()),
        1 => Just("start: <[97-101]> \"x\" | <[99-105]> \"y\"\n".to_string()),
        1 => Just("start: <[100]> \"x\" | \"d\" \"y\"\n".to_string()),
        1 => Just("start: \"a\" <|eos|> \"b\"\n".to_string()),
        1 => Just("start: (\"a\" | <[98]>)* <|eos|>\n".to_string()),
    ]
    .prop_map(GrammarSpec::Lark)
    .boxed()
}
