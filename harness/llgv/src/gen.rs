//! Grammar strategies shared by the properties.

use crate::corpus;
use crate::engine::GrammarSpec;
use crate::rx::{pick_render, rx_strategy, RxOpts};
use proptest::prelude::*;

pub fn regex_grammar(o: RxOpts) -> BoxedStrategy<GrammarSpec> {
    (rx_strategy(o), any::<u8>()).prop_map(|(rx, sel)| pick_render(&rx, sel).1).boxed()
}

pub fn corpus_grammar() -> BoxedStrategy<GrammarSpec> {
    let all = corpus::all();
    (0..all.len()).prop_map(move |i| all[i].clone()).boxed()
}

/// Mix of every generator that exists; weights: regex 4, cfg 4, json 4, corpus 2.
pub fn any_grammar() -> BoxedStrategy<GrammarSpec> {
    prop_oneof![
        4 => regex_grammar(RxOpts { depth: 3, max_weight: 60, ..RxOpts::default() }),
        3 => crate::cfg::cfg_grammar(),
        2 => crate::cfg::cfg_with_ignore(),
        4 => crate::js::schema_grammar(crate::js::Profile::All),
        2 => corpus_grammar(),
    ]
    .boxed()
}
