//! JSON-schema generators (profiles `Full` and `All`), tape-driven instance generation for
//! the fully supported subset, canonical/whitespace serialisation and instance mutation.

use crate::engine::GrammarSpec;
use crate::jsonref::J;
use crate::util::frac;
use proptest::prelude::*;
use serde_json::{json, Map, Value};

#[derive(Clone, Copy, Debug, PartialEq, Eq)]
pub enum Profile {
    /// C07: type, enum, const, anyOf, $ref, items, prefixItems, min/maxItems, properties,
    /// required, additionalProperties, min/maxLength, numeric bounds, integer multipleOf
    Full,
    /// C06: Full + allOf, oneOf, patternProperties, min/maxProperties, pattern, format,
    /// decimal multipleOf, sibling keywords, x-guidance options
    All,
}

pub const KEYS: &[&str] = &[
    "a",
    "b",
    "key",
    "x y",
    "é",
    "a\"b",
    "",
    "n1",
    "x1",
    "y_2",
    "p_1",
    "q7",
    // long names that agree on a long prefix
    "customer_shipping_address_line_1",
    "customer_shipping_address_line_2",
    "customer_shipping_addr",
    // names that have two plain-JSON spellings (short escape and \u00XX)
    "\n",
    "\tx",
];
pub const PATTERNS: &[&str] = &["^[a-c]+$", "^[0-9]{2,3}$", "^a", "b$", "^(ab|cd)*$", "^[^x]*$", "^x[0-9]?$", "[0-9]"];

fn scalar_value() -> impl Strategy<Value = Value> {
    prop_oneof![
        Just(json!(null)),
        Just(json!(true)),
        Just(json!(false)),
        (-30i64..30).prop_map(|v| json!(v)),
        Just(json!(1.5)),
        Just(json!(-0.25)),
        Just(json!(100)),
        Just(json!("")),
        Just(json!("a")),
        Just(json!("ab")),
        Just(json!("abc")),
        Just(json!("a\"b")),
        Just(json!("é😀")),
        Just(json!("line\nbreak")),
        Just(json!("tab\t\\")),
        // long strings that agree on a long prefix
        Just(json!("the quick brown fox jumps over the lazy dog")),
        Just(json!("the quick brown fox jumps over the lazy cat")),
    ]
}

fn small_value() -> impl Strategy<Value = Value> {
    prop_oneof![
        6 => scalar_value(),
        1 => proptest::collection::vec(scalar_value(), 0..3).prop_map(Value::Array),
        1 => proptest::collection::vec((0..KEYS.len(), scalar_value()), 0..3).prop_map(|v| {
            let mut m = Map::new();
            for (k, x) in v {
                m.insert(KEYS[k].to_string(), x);
            }
            Value::Object(m)
        }),
    ]
}

fn int_schema(p: Profile) -> BoxedStrategy<Value> {
    let mult = match p {
        Profile::Full => prop_oneof![6 => Just(None), 1 => Just(Some(json!(2))), 1 => Just(Some(json!(3))), 1 => Just(Some(json!(5))), 1 => Just(Some(json!(10)))].boxed(),
        Profile::All => prop_oneof![6 => Just(None), 1 => Just(Some(json!(2))), 1 => Just(Some(json!(3))), 1 => Just(Some(json!(7))), 1 => Just(Some(json!(10))), 1 => Just(Some(json!(2.5))), 1 => Just(Some(json!(0.5)))].boxed(),
    };
    (
        proptest::option::weighted(0.7, -40i64..40),
        proptest::option::weighted(0.7, 0i64..60),
        any::<bool>(),
        any::<bool>(),
        mult,
        proptest::bool::weighted(0.15),
        0u8..10,
    )
        .prop_map(|(lo, span, exl, exh, mult, big, both)| {
            let mut m = Map::new();
            m.insert("type".into(), json!("integer"));
            let scale = if big { 1000 } else { 1 };
            if let Some(lo) = lo {
                m.insert(if exl { "exclusiveMinimum" } else { "minimum" }.into(), json!(lo * scale));
                // both keywords on the lower side: equal, or the other one looser
                if both == 0 || both == 1 {
                    m.insert(if exl { "minimum" } else { "exclusiveMinimum" }.into(), json!(lo * scale - (both as i64)));
                }
            }
            if let Some(sp) = span {
                let hi = lo.unwrap_or(0) * scale + sp * scale + 3;
                m.insert(if exh { "exclusiveMaximum" } else { "maximum" }.into(), json!(hi));
                if both == 2 || both == 3 {
                    m.insert(if exh { "maximum" } else { "exclusiveMaximum" }.into(), json!(hi + (both as i64 - 2)));
                }
            }
            if let Some(mu) = mult {
                m.insert("multipleOf".into(), mu);
            }
            Value::Object(m)
        })
        .boxed()
}

fn dec_value() -> impl Strategy<Value = Value> {
    // decimals with at most 2 fractional digits, exactly representable as short text
    (-2000i64..2000, 0u8..3).prop_map(|(v, k)| match k {
        0 => json!(v / 100),
        1 => {
            let x = v / 10;
            serde_json::from_str::<Value>(&format!("{}{}.{}", if x < 0 { "-" } else { "" }, x.abs() / 10, x.abs() % 10)).unwrap()
        }
        _ => serde_json::from_str::<Value>(&format!("{}{}.{:02}", if v < 0 { "-" } else { "" }, v.abs() / 100, v.abs() % 100)).unwrap(),
    })
}

fn num_schema(p: Profile) -> BoxedStrategy<Value> {
    let mult = match p {
        Profile::Full => Just(None).boxed(),
        Profile::All => prop_oneof![6 => Just(None), 1 => Just(Some(json!(0.5))), 1 => Just(Some(json!(0.1))), 1 => Just(Some(json!(0.25))), 1 => Just(Some(json!(3)))].boxed(),
    };
    (proptest::option::weighted(0.7, dec_value()), proptest::option::weighted(0.7, 0i64..3000), any::<bool>(), any::<bool>(), mult, 0u8..10)
        .prop_map(|(lo, span, exl, exh, mult, both)| {
            let mut m = Map::new();
            m.insert("type".into(), json!("number"));
            let lo_f = lo.as_ref().and_then(|v| v.as_f64()).unwrap_or(0.0);
            if let Some(lo) = lo {
                m.insert(if exl { "exclusiveMinimum" } else { "minimum" }.into(), lo.clone());
                // both keywords on one side with the same value
                if both == 0 {
                    m.insert(if exl { "minimum" } else { "exclusiveMinimum" }.into(), lo);
                }
            }
            if let Some(sp) = span {
                // hi = lo + sp/100 rendered with 2 digits
                let hi = ((lo_f * 100.0).round() as i64) + sp + 1;
                let txt = format!("{}{}.{:02}", if hi < 0 { "-" } else { "" }, hi.abs() / 100, hi.abs() % 100);
                m.insert(if exh { "exclusiveMaximum" } else { "maximum" }.into(), serde_json::from_str(&txt).unwrap());
                if both == 1 || both == 2 {
                    m.insert(if exh { "maximum" } else { "exclusiveMaximum" }.into(), serde_json::from_str(&txt).unwrap());
                }
            }
            if let Some(mu) = mult {
                m.insert("multipleOf".into(), mu);
            }
            Value::Object(m)
        })
        .boxed()
}

fn str_schema(p: Profile) -> BoxedStrategy<Value> {
    let plain = (proptest::option::weighted(0.5, 0u64..4), proptest::option::weighted(0.6, 0u64..5)).prop_map(|(lo, span)| {
        let mut m = Map::new();
        m.insert("type".into(), json!("string"));
        if let Some(lo) = lo {
            m.insert("minLength".into(), json!(lo));
        }
        if let Some(sp) = span {
            m.insert("maxLength".into(), json!(lo.unwrap_or(0) + sp));
        }
        Value::Object(m)
    });
    match p {
        Profile::Full => plain.boxed(),
        Profile::All => prop_oneof![
            5 => plain,
            2 => (0..PATTERNS.len(), proptest::option::weighted(0.3, 1u64..6)).prop_map(|(i, ml)| {
                let mut v = json!({"type":"string","pattern":PATTERNS[i]});
                if let Some(ml) = ml { v["maxLength"] = json!(ml); }
                v
            }),
            2 => (0..crate::formats::FORMATS.len()).prop_map(|i| json!({"type":"string","format":crate::formats::FORMATS[i]})),
        ]
        .boxed(),
    }
}

/// string enum / const combined with length keywords (lengths count characters, not bytes)
fn str_enum_schema() -> BoxedStrategy<Value> {
    let val = prop_oneof![Just("abc"), Just("héé"), Just("日本"), Just("a"), Just("😀😀"), Just(""), Just("é€"), Just("ab"), Just("xyz!"), Just("ñandú")];
    (proptest::collection::vec(val, 1..5), proptest::option::weighted(0.7, 0u64..5), proptest::option::weighted(0.3, 0u64..3), any::<bool>())
        .prop_map(|(vals, maxl, minl, as_const)| {
            let mut m = Map::new();
            m.insert("type".into(), json!("string"));
            if as_const {
                m.insert("const".into(), json!(vals[0]));
            } else {
                m.insert("enum".into(), json!(vals));
            }
            if let Some(x) = maxl {
                m.insert("maxLength".into(), json!(x));
            }
            if let Some(x) = minl {
                m.insert("minLength".into(), json!(x));
            }
            Value::Object(m)
        })
        .boxed()
}

fn leaf_schema(p: Profile) -> BoxedStrategy<Value> {
    prop_oneof![
        2 => str_enum_schema(),
        1 => Just(json!({})),
        1 => Just(json!(true)),
        1 => Just(json!({"type":"null"})),
        2 => Just(json!({"type":"boolean"})),
        4 => int_schema(p),
        3 => num_schema(p),
        4 => str_schema(p),
        2 => proptest::collection::vec(small_value(), 1..5).prop_map(|v| json!({"enum": v})),
        2 => small_value().prop_map(|v| json!({"const": v})),
        1 => proptest::sample::subsequence(vec!["null", "boolean", "integer", "number", "string", "array", "object"], 1..4).prop_map(|t| json!({"type": t})),
    ]
    .boxed()
}

fn ref_leaf() -> impl Strategy<Value = Value> {
    (0usize..2).prop_map(|k| json!({"$ref": format!("#/$defs/d{}", k)}))
}

fn constrain_count_early(minp: &Option<u64>, maxp: &Option<u64>) -> bool {
    minp.is_some() || maxp.is_some()
}

fn object_schema(p: Profile, inner: BoxedStrategy<Value>) -> BoxedStrategy<Value> {
    let props = proptest::collection::vec((0..KEYS.len(), inner.clone(), any::<bool>()), 0..4);
    let addl = prop_oneof![
        3 => Just(None),
        3 => Just(Some(json!(false))),
        1 => Just(Some(json!(true))),
        3 => inner.clone().prop_map(Some),
    ];
    let extra_required = proptest::option::weighted(0.15, 0..KEYS.len());
    // optional declared properties may be forbidden outright (`false`)
    let props = (props, proptest::collection::vec(proptest::bool::weighted(0.08), 4)).prop_map(|(mut ps, forb)| {
        for (i, p) in ps.iter_mut().enumerate() {
            if forb[i % forb.len()] && !p.2 {
                p.1 = json!(false);
            }
        }
        ps
    });
    let all_extras = match p {
        Profile::Full => Just((None, None, None)).boxed(),
        Profile::All => (
            proptest::option::weighted(0.3, (0usize..10, inner.clone())),
            proptest::option::weighted(0.2, 0u64..3),
            proptest::option::weighted(0.2, 0u64..3),
        )
            .prop_map(|(a, b, c)| (a, b, c))
            .boxed(),
    };
    (props, addl, extra_required, all_extras)
        .prop_map(|(props, addl, extra_req, (patp, minp, maxp))| {
            let mut m = Map::new();
            m.insert("type".into(), json!("object"));
            let mut pm = Map::new();
            let mut req: Vec<Value> = vec![];
            for (k, s, r) in props {
                let key = KEYS[k].to_string();
                if pm.contains_key(&key) {
                    continue;
                }
                pm.insert(key.clone(), s);
                if r {
                    req.push(json!(key));
                }
            }
            // a pattern that names exactly one or two keys: declare those keys too (with the pattern's schema, so that the
            // member can satisfy both), otherwise the shape "every key the pattern can match is already declared" is rare
            if let Some((which, s)) = &patp {
                let names: &[&str] = match which {
                    6 => &["a"],
                    7 => &["a", "b"],
                    8 => &["key"],
                    9 => &["q7"],
                    _ => &[],
                };
                for n in names {
                    if !pm.contains_key(*n) && !constrain_count_early(&minp, &maxp) {
                        pm.insert(n.to_string(), s.clone());
                    }
                }
            }
            if let Some(k) = extra_req {
                if !pm.contains_key(KEYS[k]) && addl != Some(json!(false)) {
                    req.push(json!(KEYS[k]));
                }
            }
            let constrain_count = minp.is_some() || maxp.is_some();
            if constrain_count {
                // documented support: everything in `properties` is required
                req = pm.keys().map(|k| json!(k)).collect();
            }
            if !pm.is_empty() {
                m.insert("properties".into(), Value::Object(pm.clone()));
            }
            if !req.is_empty() {
                m.insert("required".into(), Value::Array(req.clone()));
            }
            if let Some((which, s)) = patp {
                // patterns may match declared names (x1, "x y", a, a"b, p_1, q7, y_2): such a member must
                // satisfy both its own schema and the pattern's
                // the last four match exactly one or two names that are often declared: with additionalProperties false
                // no further key can match the pattern at all
                let pat = ["^p_", "^q[0-9]$", "^x", "^a", "_2$", "^[a-b]", "^a$", "^(a|b)$", "^key$", "^q7$"][which];
                m.insert("patternProperties".into(), json!({ pat: s }));
            }
            if let Some(a) = addl {
                m.insert("additionalProperties".into(), a);
            }
            if let Some(mn) = minp {
                m.insert("minProperties".into(), json!(mn + req.len() as u64));
            }
            if let Some(mx) = maxp {
                m.insert("maxProperties".into(), json!(mx + minp.unwrap_or(0) + req.len() as u64));
            }
            Value::Object(m)
        })
        .boxed()
}

fn array_schema(inner: BoxedStrategy<Value>) -> BoxedStrategy<Value> {
    (
        proptest::option::weighted(0.8, inner.clone()),
        proptest::collection::vec(inner, 0..3),
        proptest::option::weighted(0.4, 0u64..3),
        proptest::option::weighted(0.5, 0u64..4),
        proptest::bool::weighted(0.1),
    )
        .prop_map(|(items, prefix, mn, span, items_false)| {
            let mut m = Map::new();
            m.insert("type".into(), json!("array"));
            if !prefix.is_empty() {
                m.insert("prefixItems".into(), Value::Array(prefix.clone()));
            }
            if items_false {
                m.insert("items".into(), json!(false));
            } else if let Some(i) = items {
                m.insert("items".into(), i);
            }
            let mut lo = mn;
            if items_false {
                lo = lo.map(|x| x.min(prefix.len() as u64));
            }
            if let Some(mn) = lo {
                m.insert("minItems".into(), json!(mn));
            }
            if let Some(sp) = span {
                m.insert("maxItems".into(), json!(lo.unwrap_or(0) + sp));
            }
            Value::Object(m)
        })
        .boxed()
}

/// "Tagged union written payload-first": anyOf of 3-5 records (objects or tuples) that start with the same member,
/// whose scalar schemas overlap (integer / number / bounded integer, strings with different length bounds ...), and
/// are told apart only by a later `const`.  While the payload is read several distinct lexemes match the same text.
fn tagged_union() -> BoxedStrategy<Value> {
    let nums = vec![
        json!({"type":"integer"}),
        json!({"type":"number"}),
        json!({"type":"integer","minimum":0}),
        json!({"type":"number","maximum":1000}),
        json!({"type":"integer","minimum":-5,"maximum":500}),
    ];
    let strs = vec![
        json!({"type":"string"}),
        json!({"type":"string","maxLength":4}),
        json!({"type":"string","maxLength":9}),
        json!({"type":"string","minLength":1}),
        json!({"enum":["ab","abc","x"]}),
    ];
    (any::<bool>(), any::<bool>(), proptest::sample::subsequence((0..5usize).collect::<Vec<_>>(), 3..=5), any::<bool>()).prop_map(move |(numeric, as_tuple, picks, shuffle)| {
        let pool = if numeric { &nums } else { &strs };
        let mut picks = picks;
        if shuffle {
            picks.reverse();
        }
        let branches: Vec<Value> = picks
            .iter()
            .enumerate()
            .map(|(i, &k)| {
                let tag_name = ["pos", "neg", "third", "fourth", "fifth"][i];
                let tag = json!({ "const": tag_name });
                if as_tuple {
                    json!({"type":"array","prefixItems":[pool[k].clone(), tag],"items":false,"minItems":2})
                } else {
                    json!({"type":"object","properties":{"val":pool[k].clone(),"kind":tag},"required":["val","kind"],"additionalProperties":false})
                }
            })
            .collect();
        json!({"anyOf": branches})
    })
    .boxed()
}

fn tree(p: Profile, with_refs: bool) -> BoxedStrategy<Value> {
    let leaf = if with_refs {
        prop_oneof![8 => leaf_schema(p), 1 => ref_leaf()].boxed()
    } else {
        leaf_schema(p)
    };
    leaf.prop_recursive(3, 16, 4, move |inner| {
        let base = prop_oneof![
            8 => object_schema(p, inner.clone()),
            6 => array_schema(inner.clone()),
            4 => proptest::collection::vec(inner.clone(), 2..4).prop_map(|v| json!({"anyOf": v})),
            1 => tagged_union(),
        ];
        match p {
            Profile::Full => base.boxed(),
            Profile::All => prop_oneof![
                8 => base,
                1 => proptest::collection::vec(inner.clone(), 2..3).prop_map(|v| json!({"oneOf": v})),
                2 => proptest::collection::vec(inner.clone(), 2..3).prop_map(|v| json!({"allOf": v})),
                // sibling keywords next to anyOf / $ref
                1 => (inner.clone(), inner.clone(), inner.clone()).prop_map(|(a, b, c)| {
                    let mut m = match c { Value::Object(m) => m, _ => Map::new() };
                    m.remove("anyOf");
                    m.insert("anyOf".into(), json!([a, b]));
                    Value::Object(m)
                }),
            ]
            .boxed(),
        }
    })
    .boxed()
}

fn def_body(p: Profile) -> BoxedStrategy<Value> {
    prop_oneof![
        // productive by construction: a non-recursive alternative first
        (leaf_schema(p), tree(p, true)).prop_map(|(a, b)| json!({"anyOf":[a, b]})),
        (leaf_schema(p), 0usize..2).prop_map(|(a, k)| json!({"type":"object","properties":{"v":a,"next":{"$ref":format!("#/$defs/d{}",k)}},"required":["v"],"additionalProperties":false})),
        (0usize..2, 1u64..4).prop_map(|(k, mx)| json!({"type":"array","items":{"$ref":format!("#/$defs/d{}",k)},"maxItems":mx})),
    ]
    .boxed()
}

fn xguidance() -> BoxedStrategy<Option<Value>> {
    prop_oneof![
        6 => Just(None),
        2 => Just(Some(json!({"whitespace_flexible": false}))),
        1 => Just(Some(json!({"whitespace_flexible": true}))),
        1 => Just(Some(json!({"whitespace_pattern": "[ \\n]{0,2}"}))),
        1 => Just(Some(json!({"whitespace_flexible": false, "item_separator": ", ?", "key_separator": ": ?"}))),
        1 => Just(Some(json!({"whitespace_flexible": false, "json_allowed_escapes": "nrt\\\""}))),
    ]
    .boxed()
}

/// A `$ref` reachable from a definition's root through anyOf/oneOf/allOf only would make the
/// definition refer to itself without consuming input (`d0 = anyOf[x, $ref d0]`): legal but
/// useless, and the jsonschema crate used as second opinion does not terminate on it.  Such
/// references are wrapped into an array by construction.
fn guard_refs(v: &mut Value, guarded: bool) {
    if let Value::Object(m) = v {
        if m.contains_key("$ref") && !guarded {
            let r = m.get("$ref").cloned().unwrap();
            *v = json!({"type":"array","items":{"$ref": r},"maxItems":2});
            return;
        }
        for (k, x) in m.iter_mut() {
            match k.as_str() {
                "anyOf" | "oneOf" | "allOf" => {
                    if let Value::Array(a) = x {
                        for y in a.iter_mut() {
                            guard_refs(y, guarded);
                        }
                    }
                }
                "properties" | "patternProperties" => {
                    if let Value::Object(pm) = x {
                        for (_, y) in pm.iter_mut() {
                            guard_refs(y, true);
                        }
                    }
                }
                "items" | "additionalProperties" => guard_refs(x, true),
                "prefixItems" => {
                    if let Value::Array(a) = x {
                        for y in a.iter_mut() {
                            guard_refs(y, true);
                        }
                    }
                }
                _ => {}
            }
        }
    }
}

/// "Type alias" definitions: a `$defs` entry whose whole body is a `$ref` to another entry (chains of one to three
/// aliases), used from several places, the target itself used directly later, earlier or not at all.
fn alias_schema(p: Profile) -> BoxedStrategy<Value> {
    (leaf_schema(p), 1usize..4, 2usize..5, 0u8..3, any::<bool>(), xguidance()).prop_map(|(target, chain, uses, direct, as_array, xg)| {
        let mut defs = Map::new();
        // a0 -> a1 -> ... -> Point
        for i in 0..chain {
            let next = if i + 1 == chain { "Point".to_string() } else { format!("a{}", i + 1) };
            defs.insert(format!("a{}", i), json!({"$ref": format!("#/$defs/{}", next)}));
        }
        defs.insert("Point".into(), json!({"type":"object","properties":{"x":target,"y":{"type":"integer"}},"required":["x"],"additionalProperties":false}));
        let mut props = Map::new();
        let mut req = vec![];
        if direct == 1 {
            props.insert("first".into(), json!({"$ref":"#/$defs/Point"}));
        }
        for u in 0..uses {
            let r = json!({"$ref":"#/$defs/a0"});
            props.insert(format!("p{}", u), if as_array && u % 2 == 1 { json!({"type":"array","items":r,"maxItems":2}) } else { r });
            if u % 2 == 0 {
                req.push(json!(format!("p{}", u)));
            }
        }
        if direct == 2 {
            props.insert("last".into(), json!({"$ref":"#/$defs/Point"}));
        }
        let mut m = Map::new();
        if let Some(x) = xg {
            m.insert("x-guidance".into(), x);
        }
        m.insert("type".into(), json!("object"));
        m.insert("properties".into(), Value::Object(props));
        m.insert("required".into(), Value::Array(req));
        m.insert("additionalProperties".into(), json!(false));
        m.insert("$defs".into(), Value::Object(defs));
        Value::Object(m)
    })
    .boxed()
}

pub fn schema_strategy(p: Profile) -> BoxedStrategy<Value> {
    prop_oneof![14 => schema_strategy_main(p), 1 => alias_schema(p)].boxed()
}

fn schema_strategy_main(p: Profile) -> BoxedStrategy<Value> {
    (tree(p, true), def_body(p), def_body(p), xguidance())
        .prop_map(|(body, mut d0, mut d1, xg)| {
            guard_refs(&mut d0, false);
            guard_refs(&mut d1, false);
            let mut m = match body {
                Value::Object(m) => m,
                Value::Bool(true) => Map::new(),
                other => {
                    let mut m = Map::new();
                    m.insert("anyOf".into(), json!([other]));
                    m
                }
            };
            let txt = Value::Object(m.clone()).to_string() + &d0.to_string() + &d1.to_string();
            if txt.contains("#/$defs/") {
                m.insert("$defs".into(), json!({"d0": d0, "d1": d1}));
            }
            if let Some(x) = xg {
                let mut m2 = Map::new();
                m2.insert("x-guidance".into(), x);
                for (k, v) in m {
                    m2.insert(k, v);
                }
                m = m2;
            }
            Value::Object(m)
        })
        .boxed()
}

pub fn schema_grammar(p: Profile) -> BoxedStrategy<GrammarSpec> {
    schema_strategy(p).prop_map(GrammarSpec::Json).boxed()
}

// ------------------------------------------------------------------------------------------
// tape-driven instance generation for the Full profile
// ------------------------------------------------------------------------------------------

pub struct Tape<'a> {
    t: &'a [u16],
    i: usize,
    /// nodes generated so far (instance generation switches to minimal choices beyond a budget)
    pub nodes: usize,
}

impl<'a> Tape<'a> {
    pub fn new(t: &'a [u16]) -> Self {
        Tape { t, i: 0, nodes: 0 }
    }
    pub fn next(&mut self, n: usize) -> usize {
        if n == 0 {
            return 0;
        }
        let v = if self.t.is_empty() { 0 } else { self.t[self.i % self.t.len()] };
        // after the tape is exhausted fall back to the smallest choice
        let v = if self.i >= self.t.len() { 0 } else { v };
        self.i += 1;
        frac(v, n)
    }
    pub fn bit(&mut self) -> bool {
        self.next(2) == 1
    }
}

const STR_CHARS: &[&str] = &["a", "b", "Z", "0", " ", "\"", "\\", "\n", "é", "😀", "\u{1}", "/", "\t", "€", "\u{7f}"];

fn resolve<'a>(root: &'a Value, r: &str) -> Option<&'a Value> {
    let p = r.strip_prefix('#')?;
    let mut cur = root;
    for seg in p.split('/').skip(1) {
        cur = cur.get(seg)?;
    }
    Some(cur)
}

fn dec_of(v: &Value) -> Option<(i64, u32)> {
    // (mantissa, scale<=2) of a generated bound
    let s = match v {
        Value::Number(n) => n.to_string(),
        _ => return None,
    };
    if s.contains('e') || s.contains('E') {
        return None;
    }
    let (ip, fp) = match s.split_once('.') {
        Some((a, b)) => (a, b),
        None => (s.as_str(), ""),
    };
    if fp.len() > 2 {
        return None;
    }
    let neg = ip.starts_with('-');
    let ia: i64 = ip.trim_start_matches('-').parse().ok()?;
    let mut f = fp.to_string();
    while f.len() < 2 {
        f.push('0');
    }
    let fv: i64 = f.parse().ok()?;
    let m = ia.checked_mul(100)?.checked_add(fv)?;
    Some((if neg { -m } else { m }, 2))
}

fn gen_number(o: &Map<String, Value>, integer: bool, tape: &mut Tape) -> Option<J> {
    // everything in hundredths
    let mut lo: Option<i64> = None;
    let mut hi: Option<i64> = None;
    if let Some(v) = o.get("minimum") {
        lo = Some(dec_of(v)?.0);
    }
    if let Some(v) = o.get("exclusiveMinimum") {
        let x = dec_of(v)?.0 + 1;
        lo = Some(lo.map_or(x, |l| l.max(x)));
    }
    if let Some(v) = o.get("maximum") {
        hi = Some(dec_of(v)?.0);
    }
    if let Some(v) = o.get("exclusiveMaximum") {
        let x = dec_of(v)?.0 - 1;
        hi = Some(hi.map_or(x, |h| h.min(x)));
    }
    let step: i64 = match o.get("multipleOf") {
        Some(v) => dec_of(v)?.0,
        None => {
            if integer {
                100
            } else {
                1
            }
        }
    };
    let step = if integer {
        // lcm(step, 100)
        let g = gcd(step, 100);
        step / g * 100
    } else {
        step
    };
    if step <= 0 {
        return None;
    }
    let (lo, hi) = match (lo, hi) {
        (Some(l), Some(h)) => (l, h),
        (Some(l), None) => (l, l + 40 * step),
        (None, Some(h)) => (h - 40 * step, h),
        (None, None) => (-20 * step, 20 * step),
    };
    // multiples of step in [lo, hi]
    let first = lo.div_euclid(step) * step + if lo.rem_euclid(step) == 0 { 0 } else { step };
    if first > hi {
        return None;
    }
    let count = ((hi - first) / step + 1) as usize;
    let pick = match tape.next(5) {
        0 => 0,
        1 => count - 1,
        2 => count / 2,
        _ => tape.next(count),
    };
    let v = first + pick as i64 * step;
    let txt = if v % 100 == 0 {
        // a standard serialiser prints integral floats of a `number` schema either way; we use
        // the integer form for integers and the shortest decimal otherwise
        format!("{}", v / 100)
    } else if v % 10 == 0 {
        format!("{}{}.{}", if v < 0 { "-" } else { "" }, v.abs() / 100, (v.abs() % 100) / 10)
    } else {
        format!("{}{}.{:02}", if v < 0 { "-" } else { "" }, v.abs() / 100, v.abs() % 100)
    };
    Some(J::Num(txt))
}

fn gcd(a: i64, b: i64) -> i64 {
    if b == 0 {
        a.abs()
    } else {
        gcd(b, a % b)
    }
}

fn gen_any(tape: &mut Tape, depth: usize) -> J {
    match tape.next(if depth > 2 { 6 } else { 8 }) {
        0 => J::Null,
        1 => J::Bool(true),
        2 => J::Num("0".into()),
        3 => J::Str("s".into()),
        4 => J::Num("-12.5".into()),
        5 => J::Bool(false),
        6 => J::Arr(vec![gen_any(tape, depth + 1)]),
        _ => J::Obj(vec![("k".into(), gen_any(tape, depth + 1))]),
    }
}

pub fn gen_instance(root: &Value, s: &Value, tape: &mut Tape, depth: usize) -> Option<J> {
    if depth > 12 {
        return None;
    }
    tape.nodes += 1;
    if tape.nodes > 2000 {
        return None;
    }
    // once the instance is big, behave as if deep in a recursion (minimal choices)
    let depth = if tape.nodes > 60 { depth.max(7) } else { depth };
    let o = match s {
        Value::Bool(true) => return Some(gen_any(tape, depth)),
        Value::Bool(false) => return None,
        Value::Object(o) => o,
        _ => return None,
    };
    if let Some(r) = o.get("$ref").and_then(|x| x.as_str()) {
        return gen_instance(root, resolve(root, r)?, tape, depth + 1);
    }
    if let Some(e) = o.get("enum").and_then(|x| x.as_array()) {
        if e.is_empty() {
            return None;
        }
        return Some(J::from_value(&e[tape.next(e.len())]));
    }
    if let Some(c) = o.get("const") {
        return Some(J::from_value(c));
    }
    if let Some(a) = o.get("anyOf").and_then(|x| x.as_array()) {
        if a.is_empty() {
            return None;
        }
        // deep in a recursion: prefer the first (non-recursive) branch
        let st = if depth > 6 { 0 } else { tape.next(a.len()) };
        for k in 0..a.len() {
            if let Some(j) = gen_instance(root, &a[(st + k) % a.len()], tape, depth + 1) {
                return Some(j);
            }
        }
        return None;
    }
    let types: Vec<String> = match o.get("type") {
        Some(Value::String(t)) => vec![t.clone()],
        Some(Value::Array(a)) => a.iter().filter_map(|x| x.as_str().map(|s| s.to_string())).collect(),
        _ => vec![],
    };
    let ty = if types.is_empty() {
        // untyped: infer from keywords
        if o.contains_key("properties") || o.contains_key("required") || o.contains_key("additionalProperties") {
            "object".to_string()
        } else if o.contains_key("items") || o.contains_key("prefixItems") {
            "array".to_string()
        } else if o.contains_key("minLength") || o.contains_key("maxLength") {
            "string".to_string()
        } else if o.contains_key("minimum") || o.contains_key("maximum") || o.contains_key("multipleOf") {
            "number".to_string()
        } else {
            return Some(gen_any(tape, depth));
        }
    } else {
        types[tape.next(types.len())].clone()
    };
    match ty.as_str() {
        "null" => Some(J::Null),
        "boolean" => Some(J::Bool(tape.bit())),
        "integer" => gen_number(o, true, tape),
        "number" => gen_number(o, false, tape),
        "string" => {
            let lo = o.get("minLength").and_then(|x| x.as_u64()).unwrap_or(0) as usize;
            let hi = o.get("maxLength").and_then(|x| x.as_u64()).map(|x| x as usize).unwrap_or(lo + 4);
            if hi < lo {
                return None;
            }
            let len = match tape.next(4) {
                0 => lo,
                1 => hi,
                _ => lo + tape.next(hi - lo + 1),
            };
            let mut s = String::new();
            for _ in 0..len {
                s.push_str(STR_CHARS[tape.next(STR_CHARS.len())]);
            }
            Some(J::Str(s))
        }
        "array" => {
            let prefix: Vec<Value> = o.get("prefixItems").and_then(|x| x.as_array()).cloned().unwrap_or_default();
            let items = o.get("items");
            let lo = o.get("minItems").and_then(|x| x.as_u64()).unwrap_or(0) as usize;
            let mut hi = o.get("maxItems").and_then(|x| x.as_u64()).map(|x| x as usize).unwrap_or(lo + 3);
            if items == Some(&Value::Bool(false)) {
                hi = hi.min(prefix.len());
            }
            if hi < lo {
                return None;
            }
            let n = if depth > 6 {
                lo
            } else {
                match tape.next(4) {
                    0 => lo,
                    1 => hi,
                    _ => lo + tape.next(hi - lo + 1),
                }
            };
            let mut v = vec![];
            for i in 0..n {
                let sch = if i < prefix.len() {
                    prefix[i].clone()
                } else {
                    items.cloned().unwrap_or(Value::Bool(true))
                };
                v.push(gen_instance(root, &sch, tape, depth + 1)?);
            }
            Some(J::Arr(v))
        }
        "object" => {
            let props = o.get("properties").and_then(|x| x.as_object());
            let req: Vec<String> = o
                .get("required")
                .and_then(|x| x.as_array())
                .map(|a| a.iter().filter_map(|x| x.as_str().map(|s| s.to_string())).collect())
                .unwrap_or_default();
            let addl = o.get("additionalProperties").cloned().unwrap_or(Value::Bool(true));
            let mut out: Vec<(String, J)> = vec![];
            if let Some(p) = props {
                for (k, sch) in p {
                    let required = req.contains(k);
                    let include = required || (depth <= 6 && tape.bit());
                    if include {
                        match gen_instance(root, sch, tape, depth + 1) {
                            Some(j) => out.push((k.clone(), j)),
                            None => {
                                if required {
                                    return None;
                                }
                            }
                        }
                    }
                }
            }
            for k in &req {
                if props.is_some_and(|p| p.contains_key(k)) {
                    continue;
                }
                if out.iter().any(|(k2, _)| k2 == k) {
                    continue;
                }
                out.push((k.clone(), gen_instance(root, &addl, tape, depth + 1)?));
            }
            if addl != Value::Bool(false) && depth <= 5 {
                let n = tape.next(3);
                for i in 0..n {
                    let k = ["zz", "extra", "ö", "k\"q"][(tape.next(4) + i) % 4].to_string();
                    if props.is_some_and(|p| p.contains_key(&k)) || out.iter().any(|(k2, _)| *k2 == k) {
                        continue;
                    }
                    if let Some(j) = gen_instance(root, &addl, tape, depth + 1) {
                        out.push((k, j));
                    }
                }
            }
            Some(J::Obj(out))
        }
        _ => None,
    }
}

// ------------------------------------------------------------------------------------------
// whitespace variants
// ------------------------------------------------------------------------------------------

/// serialise with whitespace inserted at inter-token positions *inside* the outermost container
pub fn to_spaced(j: &J, tape: &mut Tape, ws: &[&str], top: bool) -> String {
    let mut pick = |tape: &mut Tape| -> String {
        if top {
            String::new()
        } else {
            ws[tape.next(ws.len())].to_string()
        }
    };
    let _ = &mut pick;
    fn go(j: &J, tape: &mut Tape, ws: &[&str], out: &mut String) {
        let w = |tape: &mut Tape| ws[tape.next(ws.len())].to_string();
        match j {
            J::Arr(v) => {
                out.push('[');
                if v.is_empty() {
                    out.push_str(&w(tape));
                }
                for (i, x) in v.iter().enumerate() {
                    if i > 0 {
                        out.push_str(&w(tape));
                        out.push(',');
                    }
                    out.push_str(&w(tape));
                    go(x, tape, ws, out);
                }
                if !v.is_empty() {
                    out.push_str(&w(tape));
                }
                out.push(']');
            }
            J::Obj(v) => {
                out.push('{');
                if v.is_empty() {
                    out.push_str(&w(tape));
                }
                for (i, (k, x)) in v.iter().enumerate() {
                    if i > 0 {
                        out.push_str(&w(tape));
                        out.push(',');
                    }
                    out.push_str(&w(tape));
                    out.push_str(&serde_json::to_string(k).unwrap());
                    out.push_str(&w(tape));
                    out.push(':');
                    out.push_str(&w(tape));
                    go(x, tape, ws, out);
                }
                if !v.is_empty() {
                    out.push_str(&w(tape));
                }
                out.push('}');
            }
            other => out.push_str(&other.to_compact()),
        }
    }
    let mut s = String::new();
    go(j, tape, ws, &mut s);
    s
}

// ------------------------------------------------------------------------------------------
// mutation (C06 negative probing)
// ------------------------------------------------------------------------------------------

fn count_nodes(j: &J) -> usize {
    1 + match j {
        J::Arr(v) => v.iter().map(count_nodes).sum(),
        J::Obj(v) => v.iter().map(|(_, x)| count_nodes(x)).sum(),
        _ => 0,
    }
}

fn mutate_at(j: &mut J, target: &mut usize, tape: &mut Tape) -> bool {
    if *target == 0 {
        mutate_node(j, tape);
        return true;
    }
    *target -= 1;
    match j {
        J::Arr(v) => {
            for x in v.iter_mut() {
                if mutate_at(x, target, tape) {
                    return true;
                }
            }
        }
        J::Obj(v) => {
            for (_, x) in v.iter_mut() {
                if mutate_at(x, target, tape) {
                    return true;
                }
            }
        }
        _ => {}
    }
    false
}

fn bump_number(s: &str, tape: &mut Tape) -> String {
    use crate::jsonref::Dec;
    let d = Dec::parse(s);
    let as_i: Option<i64> = s.parse().ok();
    match tape.next(9) {
        0 => as_i.map(|v| (v + 1).to_string()).unwrap_or_else(|| format!("{}1", s)),
        1 => as_i.map(|v| (v - 1).to_string()).unwrap_or_else(|| "0".into()),
        2 => {
            if s.contains('.') || s.contains('e') {
                format!("{}5", s)
            } else {
                format!("{}.5", s)
            }
        }
        3 => {
            if s.contains('.') || s.contains('e') {
                s.to_string()
            } else {
                format!("{}.0", s)
            }
        }
        4 => {
            if s.contains('e') {
                s.to_string()
            } else {
                format!("{}e0", s)
            }
        }
        5 => {
            if s.contains('.') || s.contains('e') {
                s.to_string()
            } else {
                format!("{}0", s)
            }
        }
        6 => {
            if let Some(r) = s.strip_prefix('-') {
                r.to_string()
            } else if d.is_some_and(|d| !d.is_zero()) {
                format!("-{}", s)
            } else {
                "-1".into()
            }
        }
        7 => as_i.map(|v| (v * 2).to_string()).unwrap_or_else(|| "7".into()),
        _ => {
            if s.contains('.') && !s.contains('e') {
                format!("{}1", s)
            } else {
                format!("{}.01", s.split('e').next().unwrap())
            }
        }
    }
}

fn mutate_node(j: &mut J, tape: &mut Tape) {
    let replace_types = |tape: &mut Tape| match tape.next(7) {
        0 => J::Null,
        1 => J::Bool(true),
        2 => J::Num("0".into()),
        3 => J::Str("x".into()),
        4 => J::Arr(vec![]),
        5 => J::Obj(vec![]),
        _ => J::Num("1.5".into()),
    };
    match j {
        J::Num(s) => {
            if tape.next(6) == 0 {
                *j = replace_types(tape);
            } else {
                *s = bump_number(s, tape);
            }
        }
        J::Str(s) => match tape.next(7) {
            0 => *j = replace_types(tape),
            1 => s.push('a'),
            2 => {
                s.pop();
            }
            3 => s.push('😀'),
            4 => s.insert(0, '0'),
            5 => *s = s.to_uppercase(),
            _ => s.push_str("-1"),
        },
        J::Arr(v) => match tape.next(5) {
            0 => *j = replace_types(tape),
            1 => {
                if let Some(l) = v.last().cloned() {
                    v.push(l)
                } else {
                    v.push(J::Null)
                }
            }
            2 => {
                v.pop();
            }
            3 => v.push(replace_types(tape)),
            _ => {
                if v.len() >= 2 {
                    v.swap(0, 1)
                } else {
                    v.push(J::Num("1".into()))
                }
            }
        },
        J::Obj(v) => match tape.next(8) {
            0 => *j = replace_types(tape),
            1 => {
                if !v.is_empty() {
                    let i = tape.next(v.len());
                    v.remove(i);
                }
            }
            2 => {
                let x = replace_types(tape);
                v.push(("zz".into(), x))
            }
            3 => {
                // duplicate an existing key with another value
                if !v.is_empty() {
                    let i = tape.next(v.len());
                    let k = v[i].0.clone();
                    let x = replace_types(tape);
                    v.push((k, x));
                }
            }
            4 => {
                if !v.is_empty() {
                    let i = tape.next(v.len());
                    let d = v[i].clone();
                    v.push(d);
                }
            }
            5 => {
                if v.len() >= 2 {
                    let n = v.len();
                    v.swap(0, n - 1)
                }
            }
            6 => {
                if !v.is_empty() {
                    let i = tape.next(v.len());
                    v[i].0.push('x');
                }
            }
            _ => {
                let x = replace_types(tape);
                v.insert(0, ("a".into(), x))
            }
        },
        J::Bool(_) | J::Null => *j = replace_types(tape),
    }
}

/// one random structural mutation
pub fn mutate(j: &J, tape: &mut Tape) -> J {
    let mut m = j.clone();
    let n = count_nodes(&m);
    let mut target = tape.next(n);
    mutate_at(&mut m, &mut target, tape);
    m
}

/// text-level re-spelling of the first object key using \uXXXX escapes
pub fn respell_keys(text: &str) -> Option<String> {
    // find `"k":` where k is a plain ASCII run and re-spell its first char
    let b = text.as_bytes();
    let mut i = 0;
    while i + 3 < b.len() {
        // a key that starts with a short escape of a control character: \n -> \u000a, \t -> \u0009 (both spellings are
        // plain JSON, whatever the escape options)
        if (b[i] == b'{' || b[i] == b',') && b[i + 1] == b'"' && b[i + 2] == b'\\' && (b[i + 3] == b'n' || b[i + 3] == b't') {
            let c = if b[i + 3] == b'n' { 0x0a } else { 0x09 };
            let mut s = String::new();
            s.push_str(&text[..i + 2]);
            s.push_str(&format!("\\u{:04x}", c));
            s.push_str(&text[i + 4..]);
            return Some(s);
        }
        if (b[i] == b'{' || b[i] == b',') && b[i + 1] == b'"' && b[i + 2].is_ascii_alphanumeric() {
            let c = b[i + 2];
            let mut s = String::new();
            s.push_str(&text[..i + 2]);
            s.push_str(&format!("\\u{:04x}", c));
            s.push_str(&text[i + 3..]);
            return Some(s);
        }
        i += 1;
    }
    None
}
