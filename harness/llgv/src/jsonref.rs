//! R-JSON: duplicate-preserving JSON parser, exact decimals and an independent validator
//! for the documented keyword set (Draft 2020-12 semantics, formats asserted).

use serde_json::Value;

#[derive(Clone, Debug, PartialEq)]
pub enum J {
    Null,
    Bool(bool),
    /// raw number text exactly as written
    Num(String),
    Str(String),
    Arr(Vec<J>),
    /// key order and duplicates preserved
    Obj(Vec<(String, J)>),
}

// ------------------------------------------------------------------------------------------
// strict RFC 8259 parser
// ------------------------------------------------------------------------------------------

pub struct P<'a> {
    s: &'a [u8],
    i: usize,
    depth: usize,
}

pub fn parse_json(text: &[u8]) -> Result<J, String> {
    if std::str::from_utf8(text).is_err() {
        return Err("not valid UTF-8".into());
    }
    let mut p = P { s: text, i: 0, depth: 0 };
    p.ws();
    let v = p.value()?;
    p.ws();
    if p.i != text.len() {
        return Err(format!("trailing data at {}", p.i));
    }
    Ok(v)
}

impl P<'_> {
    fn ws(&mut self) {
        while self.i < self.s.len() && matches!(self.s[self.i], b' ' | b'\n' | b'\r' | b'\t') {
            self.i += 1;
        }
    }
    fn peek(&self) -> Option<u8> {
        self.s.get(self.i).cloned()
    }
    fn lit(&mut self, w: &str, v: J) -> Result<J, String> {
        if self.s[self.i..].starts_with(w.as_bytes()) {
            self.i += w.len();
            Ok(v)
        } else {
            Err(format!("bad literal at {}", self.i))
        }
    }
    fn value(&mut self) -> Result<J, String> {
        self.depth += 1;
        if self.depth > 400 {
            return Err("too deep".into());
        }
        let r = match self.peek() {
            None => Err("eof".into()),
            Some(b'n') => self.lit("null", J::Null),
            Some(b't') => self.lit("true", J::Bool(true)),
            Some(b'f') => self.lit("false", J::Bool(false)),
            Some(b'"') => self.string().map(J::Str),
            Some(b'[') => {
                self.i += 1;
                let mut v = vec![];
                self.ws();
                if self.peek() == Some(b']') {
                    self.i += 1;
                    Ok(J::Arr(v))
                } else {
                    loop {
                        self.ws();
                        v.push(self.value()?);
                        self.ws();
                        match self.peek() {
                            Some(b',') => self.i += 1,
                            Some(b']') => {
                                self.i += 1;
                                break Ok(J::Arr(v));
                            }
                            _ => break Err(format!("expected , or ] at {}", self.i)),
                        }
                    }
                }
            }
            Some(b'{') => {
                self.i += 1;
                let mut v = vec![];
                self.ws();
                if self.peek() == Some(b'}') {
                    self.i += 1;
                    Ok(J::Obj(v))
                } else {
                    loop {
                        self.ws();
                        if self.peek() != Some(b'"') {
                            break Err(format!("expected key at {}", self.i));
                        }
                        let k = self.string()?;
                        self.ws();
                        if self.peek() != Some(b':') {
                            break Err(format!("expected : at {}", self.i));
                        }
                        self.i += 1;
                        self.ws();
                        let x = self.value()?;
                        v.push((k, x));
                        self.ws();
                        match self.peek() {
                            Some(b',') => self.i += 1,
                            Some(b'}') => {
                                self.i += 1;
                                break Ok(J::Obj(v));
                            }
                            _ => break Err(format!("expected , or }} at {}", self.i)),
                        }
                    }
                }
            }
            Some(c) if c == b'-' || c.is_ascii_digit() => self.number(),
            Some(c) => Err(format!("unexpected byte {:#x} at {}", c, self.i)),
        };
        self.depth -= 1;
        r
    }
    fn number(&mut self) -> Result<J, String> {
        let st = self.i;
        if self.peek() == Some(b'-') {
            self.i += 1;
        }
        match self.peek() {
            Some(b'0') => self.i += 1,
            Some(c) if c.is_ascii_digit() => {
                while self.peek().is_some_and(|c| c.is_ascii_digit()) {
                    self.i += 1;
                }
            }
            _ => return Err(format!("bad number at {}", self.i)),
        }
        if self.peek() == Some(b'.') {
            self.i += 1;
            if !self.peek().is_some_and(|c| c.is_ascii_digit()) {
                return Err(format!("bad fraction at {}", self.i));
            }
            while self.peek().is_some_and(|c| c.is_ascii_digit()) {
                self.i += 1;
            }
        }
        if matches!(self.peek(), Some(b'e') | Some(b'E')) {
            self.i += 1;
            if matches!(self.peek(), Some(b'+') | Some(b'-')) {
                self.i += 1;
            }
            if !self.peek().is_some_and(|c| c.is_ascii_digit()) {
                return Err(format!("bad exponent at {}", self.i));
            }
            while self.peek().is_some_and(|c| c.is_ascii_digit()) {
                self.i += 1;
            }
        }
        Ok(J::Num(String::from_utf8(self.s[st..self.i].to_vec()).unwrap()))
    }
    fn hex4(&mut self) -> Result<u32, String> {
        if self.i + 4 > self.s.len() {
            return Err("short \\u".into());
        }
        let h = std::str::from_utf8(&self.s[self.i..self.i + 4]).map_err(|e| e.to_string())?;
        if !h.bytes().all(|c| c.is_ascii_hexdigit()) {
            return Err("bad \\u".into());
        }
        self.i += 4;
        u32::from_str_radix(h, 16).map_err(|e| e.to_string())
    }
    fn string(&mut self) -> Result<String, String> {
        self.i += 1;
        let mut out = String::new();
        loop {
            let c = self.peek().ok_or("eof in string")?;
            match c {
                b'"' => {
                    self.i += 1;
                    return Ok(out);
                }
                b'\\' => {
                    self.i += 1;
                    let e = self.peek().ok_or("eof in escape")?;
                    self.i += 1;
                    match e {
                        b'"' => out.push('"'),
                        b'\\' => out.push('\\'),
                        b'/' => out.push('/'),
                        b'b' => out.push('\u{8}'),
                        b'f' => out.push('\u{c}'),
                        b'n' => out.push('\n'),
                        b'r' => out.push('\r'),
                        b't' => out.push('\t'),
                        b'u' => {
                            let u = self.hex4()?;
                            if (0xD800..0xDC00).contains(&u) {
                                if self.s[self.i..].starts_with(b"\\u") {
                                    self.i += 2;
                                    let l = self.hex4()?;
                                    if !(0xDC00..0xE000).contains(&l) {
                                        return Err("unpaired surrogate".into());
                                    }
                                    let cp = 0x10000 + ((u - 0xD800) << 10) + (l - 0xDC00);
                                    out.push(char::from_u32(cp).ok_or("bad cp")?);
                                } else {
                                    return Err("unpaired surrogate".into());
                                }
                            } else if (0xDC00..0xE000).contains(&u) {
                                return Err("unpaired surrogate".into());
                            } else {
                                out.push(char::from_u32(u).ok_or("bad cp")?);
                            }
                        }
                        _ => return Err(format!("bad escape \\{}", e as char)),
                    }
                }
                c if c < 0x20 => return Err(format!("raw control char {:#x} in string", c)),
                _ => {
                    // copy one UTF-8 char
                    let st = self.i;
                    self.i += 1;
                    while self.i < self.s.len() && (self.s[self.i] & 0xC0) == 0x80 {
                        self.i += 1;
                    }
                    out.push_str(std::str::from_utf8(&self.s[st..self.i]).map_err(|e| e.to_string())?);
                }
            }
        }
    }
}

impl J {
    /// compact serialisation the way serde_json does it
    pub fn to_compact(&self) -> String {
        match self {
            J::Null => "null".into(),
            J::Bool(b) => b.to_string(),
            J::Num(s) => s.clone(),
            J::Str(s) => serde_json::to_string(s).unwrap(),
            J::Arr(v) => format!("[{}]", v.iter().map(|x| x.to_compact()).collect::<Vec<_>>().join(",")),
            J::Obj(v) => format!(
                "{{{}}}",
                v.iter()
                    .map(|(k, x)| format!("{}:{}", serde_json::to_string(k).unwrap(), x.to_compact()))
                    .collect::<Vec<_>>()
                    .join(",")
            ),
        }
    }
    pub fn from_value(v: &Value) -> J {
        match v {
            Value::Null => J::Null,
            Value::Bool(b) => J::Bool(*b),
            Value::Number(n) => J::Num(n.to_string()),
            Value::String(s) => J::Str(s.clone()),
            Value::Array(a) => J::Arr(a.iter().map(J::from_value).collect()),
            Value::Object(o) => J::Obj(o.iter().map(|(k, v)| (k.clone(), J::from_value(v))).collect()),
        }
    }
    /// to serde_json (None when duplicates exist or a number does not survive f64/i64)
    pub fn to_value(&self) -> Option<Value> {
        Some(match self {
            J::Null => Value::Null,
            J::Bool(b) => Value::Bool(*b),
            J::Num(s) => {
                let v: Value = serde_json::from_str(s).ok()?;
                let d1 = Dec::parse(s)?;
                let d2 = Dec::parse(&v.to_string())?;
                if d1.cmp(&d2) != std::cmp::Ordering::Equal {
                    return None;
                }
                v
            }
            J::Str(s) => Value::String(s.clone()),
            J::Arr(a) => Value::Array(a.iter().map(|x| x.to_value()).collect::<Option<Vec<_>>>()?),
            J::Obj(o) => {
                let mut m = serde_json::Map::new();
                for (k, v) in o {
                    if m.contains_key(k) {
                        return None;
                    }
                    m.insert(k.clone(), v.to_value()?);
                }
                Value::Object(m)
            }
        })
    }
    pub fn has_duplicate_keys(&self) -> bool {
        match self {
            J::Arr(a) => a.iter().any(|x| x.has_duplicate_keys()),
            J::Obj(o) => {
                let mut seen = std::collections::HashSet::new();
                o.iter().any(|(k, v)| !seen.insert(k) || v.has_duplicate_keys())
            }
            _ => false,
        }
    }
}

// ------------------------------------------------------------------------------------------
// exact decimals: sign, digit string (no leading zeros; "" for zero), exponent of ten
// value = (-1)^neg * digits * 10^exp
// ------------------------------------------------------------------------------------------

#[derive(Clone, Debug, PartialEq, Eq)]
pub struct Dec {
    pub neg: bool,
    pub digits: String,
    pub exp: i64,
}

impl Dec {
    pub fn parse(s: &str) -> Option<Dec> {
        let b = s.as_bytes();
        let mut i = 0;
        let mut neg = false;
        if i < b.len() && b[i] == b'-' {
            neg = true;
            i += 1;
        }
        let mut digits = String::new();
        let mut exp: i64 = 0;
        let st = i;
        while i < b.len() && b[i].is_ascii_digit() {
            digits.push(b[i] as char);
            i += 1;
        }
        if i == st {
            return None;
        }
        if i < b.len() && b[i] == b'.' {
            i += 1;
            let fs = i;
            while i < b.len() && b[i].is_ascii_digit() {
                digits.push(b[i] as char);
                exp -= 1;
                i += 1;
            }
            if i == fs {
                return None;
            }
        }
        if i < b.len() && (b[i] == b'e' || b[i] == b'E') {
            i += 1;
            let e: i64 = std::str::from_utf8(&b[i..]).ok()?.parse().ok()?;
            exp += e;
            i = b.len();
        }
        if i != b.len() {
            return None;
        }
        let mut d = Dec { neg, digits, exp };
        d.normalize();
        Some(d)
    }
    pub fn from_i64(v: i64) -> Dec {
        Dec::parse(&v.to_string()).unwrap()
    }
    fn normalize(&mut self) {
        let t = self.digits.trim_start_matches('0').to_string();
        self.digits = t;
        while self.digits.ends_with('0') {
            self.digits.pop();
            self.exp += 1;
        }
        if self.digits.is_empty() {
            self.neg = false;
            self.exp = 0;
        }
    }
    pub fn is_zero(&self) -> bool {
        self.digits.is_empty()
    }
    pub fn is_integer(&self) -> bool {
        self.is_zero() || self.exp >= 0
    }
    /// magnitude comparison
    fn cmp_abs(&self, o: &Dec) -> std::cmp::Ordering {
        use std::cmp::Ordering::*;
        if self.is_zero() || o.is_zero() {
            return (!self.is_zero() as u8).cmp(&(!o.is_zero() as u8));
        }
        // position of the most significant digit
        let ma = self.digits.len() as i64 + self.exp;
        let mb = o.digits.len() as i64 + o.exp;
        if ma != mb {
            return ma.cmp(&mb);
        }
        let n = self.digits.len().max(o.digits.len());
        let a = self.digits.as_bytes();
        let b = o.digits.as_bytes();
        for i in 0..n {
            let x = a.get(i).cloned().unwrap_or(b'0');
            let y = b.get(i).cloned().unwrap_or(b'0');
            if x != y {
                return x.cmp(&y);
            }
        }
        Equal
    }
    pub fn cmp(&self, o: &Dec) -> std::cmp::Ordering {
        use std::cmp::Ordering::*;
        match (self.neg, o.neg) {
            (false, false) => self.cmp_abs(o),
            (true, true) => o.cmp_abs(self),
            (false, true) => Greater,
            (true, false) => Less,
        }
    }
    /// is self an integer multiple of m (m != 0)
    pub fn is_multiple_of(&self, m: &Dec) -> Option<bool> {
        if m.is_zero() {
            return None;
        }
        if self.is_zero() {
            return Some(true);
        }
        // self = a*10^ea, m = b*10^eb. Scale both to the common exponent e = min(ea, eb).
        let e = self.exp.min(m.exp);
        let sa = (self.exp - e) as usize;
        let sb = (m.exp - e) as usize;
        if sa > 400 || sb > 30 {
            return None;
        }
        let mut a = self.digits.clone();
        a.extend(std::iter::repeat('0').take(sa));
        let mut b = m.digits.clone();
        b.extend(std::iter::repeat('0').take(sb));
        let bv: u128 = b.parse().ok()?;
        if bv == 0 || bv > (1u128 << 100) {
            return None;
        }
        let mut r: u128 = 0;
        for c in a.bytes() {
            r = (r * 10 + (c - b'0') as u128) % bv;
        }
        Some(r == 0)
    }
    pub fn to_f64(&self) -> f64 {
        format!("{}{}e{}", if self.neg { "-" } else { "" }, if self.digits.is_empty() { "0" } else { &self.digits }, self.exp)
            .parse()
            .unwrap_or(f64::NAN)
    }
}

// ------------------------------------------------------------------------------------------
// validator
// ------------------------------------------------------------------------------------------

#[derive(Debug, Clone, PartialEq)]
pub enum Verdict {
    Valid,
    Invalid(String),
    /// the schema uses something this reference does not model
    Unsupported(String),
}

const IGNORED: &[&str] = &[
    "title", "description", "$defs", "definitions", "default", "examples", "x-guidance", "$schema", "$id", "$comment", "deprecated", "readOnly",
    "writeOnly",
];

pub struct Validator<'a> {
    pub root: &'a Value,
    /// keys that may legitimately repeat are tolerated (documented departure)
    pub fuel: std::cell::Cell<usize>,
}

fn json_type(j: &J) -> &'static str {
    match j {
        J::Null => "null",
        J::Bool(_) => "boolean",
        J::Num(_) => "number",
        J::Str(_) => "string",
        J::Arr(_) => "array",
        J::Obj(_) => "object",
    }
}

/// deep equality with numbers compared mathematically (1 == 1.0)
pub fn j_equal(a: &J, b: &J) -> bool {
    match (a, b) {
        (J::Num(x), J::Num(y)) => match (Dec::parse(x), Dec::parse(y)) {
            (Some(p), Some(q)) => p.cmp(&q) == std::cmp::Ordering::Equal,
            _ => false,
        },
        (J::Arr(x), J::Arr(y)) => x.len() == y.len() && x.iter().zip(y).all(|(p, q)| j_equal(p, q)),
        (J::Obj(x), J::Obj(y)) => {
            // as sets of members (no duplicates expected in schema constants)
            x.len() == y.len() && x.iter().all(|(k, v)| y.iter().any(|(k2, v2)| k == k2 && j_equal(v, v2)))
        }
        (J::Null, J::Null) => true,
        (J::Bool(x), J::Bool(y)) => x == y,
        (J::Str(x), J::Str(y)) => x == y,
        _ => false,
    }
}

fn resolve<'a>(root: &'a Value, r: &str) -> Option<&'a Value> {
    if r == "#" {
        return Some(root);
    }
    let p = r.strip_prefix('#')?;
    // JSON pointer with ~0 ~1 and percent-decoding not needed for generated refs
    let mut cur = root;
    for seg in p.split('/').skip(1) {
        let seg = seg.replace("~1", "/").replace("~0", "~");
        cur = match cur {
            Value::Object(o) => o.get(&seg)?,
            Value::Array(a) => a.get(seg.parse::<usize>().ok()?)?,
            _ => return None,
        };
    }
    Some(cur)
}

fn num_of(v: &Value) -> Option<Dec> {
    match v {
        Value::Number(n) => Dec::parse(&n.to_string()),
        _ => None,
    }
}

macro_rules! inv {
    ($($a:tt)*) => { return Verdict::Invalid(format!($($a)*)) };
}

impl<'a> Validator<'a> {
    pub fn new(root: &'a Value) -> Self {
        Validator {
            root,
            fuel: std::cell::Cell::new(200_000),
        }
    }

    pub fn validate(&self, inst: &J) -> Verdict {
        self.v(self.root, inst, 0)
    }

    fn all<'b>(&self, it: impl Iterator<Item = Verdict> + 'b) -> Verdict {
        let mut unsup = None;
        for v in it {
            match v {
                Verdict::Valid => {}
                Verdict::Invalid(m) => return Verdict::Invalid(m),
                Verdict::Unsupported(m) => unsup = Some(m),
            }
        }
        match unsup {
            Some(m) => Verdict::Unsupported(m),
            None => Verdict::Valid,
        }
    }

    pub fn v(&self, s: &Value, j: &J, depth: usize) -> Verdict {
        if depth > 200 {
            return Verdict::Unsupported("ref depth".into());
        }
        let f = self.fuel.get();
        if f == 0 {
            return Verdict::Unsupported("fuel".into());
        }
        self.fuel.set(f - 1);
        let o = match s {
            Value::Bool(true) => return Verdict::Valid,
            Value::Bool(false) => inv!("false schema"),
            Value::Object(o) => o,
            _ => return Verdict::Unsupported("schema is not an object".into()),
        };
        for k in o.keys() {
            let known = [
                "type", "enum", "const", "anyOf", "allOf", "oneOf", "$ref", "items", "prefixItems", "minItems", "maxItems", "properties", "required",
                "additionalProperties", "patternProperties", "minProperties", "maxProperties", "minLength", "maxLength", "pattern", "format",
                "minimum", "maximum", "exclusiveMinimum", "exclusiveMaximum", "multipleOf",
            ];
            if !known.contains(&k.as_str()) && !IGNORED.contains(&k.as_str()) {
                return Verdict::Unsupported(format!("keyword {}", k));
            }
        }
        let mut checks: Vec<Verdict> = Vec::new();

        if let Some(t) = o.get("type") {
            let types: Vec<&str> = match t {
                Value::String(s) => vec![s.as_str()],
                Value::Array(a) => a.iter().filter_map(|x| x.as_str()).collect(),
                _ => return Verdict::Unsupported("type".into()),
            };
            let jt = json_type(j);
            let ok = types.iter().any(|t| {
                *t == jt
                    || (*t == "integer"
                        && match j {
                            J::Num(n) => Dec::parse(n).is_some_and(|d| d.is_integer()),
                            _ => false,
                        })
            });
            if !ok {
                inv!("type: {} not in {:?}", jt, types);
            }
        }
        if let Some(e) = o.get("enum") {
            let a = match e.as_array() {
                Some(a) => a,
                None => return Verdict::Unsupported("enum".into()),
            };
            if !a.iter().any(|x| j_equal(&J::from_value(x), j)) {
                inv!("enum");
            }
        }
        if let Some(c) = o.get("const") {
            if !j_equal(&J::from_value(c), j) {
                inv!("const");
            }
        }
        if let Some(r) = o.get("$ref") {
            let r = match r.as_str() {
                Some(r) => r,
                None => return Verdict::Unsupported("$ref".into()),
            };
            match resolve(self.root, r) {
                Some(t) => checks.push(self.v(t, j, depth + 1)),
                None => return Verdict::Unsupported(format!("unresolvable $ref {}", r)),
            }
        }
        if let Some(a) = o.get("allOf").and_then(|x| x.as_array()) {
            for s2 in a {
                checks.push(self.v(s2, j, depth + 1));
            }
        }
        if let Some(a) = o.get("anyOf").and_then(|x| x.as_array()) {
            let mut ok = false;
            let mut unsup = None;
            for s2 in a {
                match self.v(s2, j, depth + 1) {
                    Verdict::Valid => {
                        ok = true;
                        break;
                    }
                    Verdict::Unsupported(m) => unsup = Some(m),
                    _ => {}
                }
            }
            if !ok {
                if let Some(m) = unsup {
                    return Verdict::Unsupported(m);
                }
                inv!("anyOf: no branch matches");
            }
        }
        if let Some(a) = o.get("oneOf").and_then(|x| x.as_array()) {
            let mut n = 0;
            for s2 in a {
                match self.v(s2, j, depth + 1) {
                    Verdict::Valid => n += 1,
                    Verdict::Unsupported(m) => return Verdict::Unsupported(m),
                    _ => {}
                }
            }
            if n != 1 {
                inv!("oneOf: {} branches match", n);
            }
        }

        match j {
            J::Num(n) => {
                let d = match Dec::parse(n) {
                    Some(d) => d,
                    None => return Verdict::Unsupported("number parse".into()),
                };
                use std::cmp::Ordering::*;
                if let Some(m) = o.get("minimum").and_then(num_of) {
                    if d.cmp(&m) == Less {
                        inv!("minimum");
                    }
                }
                if let Some(m) = o.get("maximum").and_then(num_of) {
                    if d.cmp(&m) == Greater {
                        inv!("maximum");
                    }
                }
                if let Some(m) = o.get("exclusiveMinimum").and_then(num_of) {
                    if d.cmp(&m) != Greater {
                        inv!("exclusiveMinimum");
                    }
                }
                if let Some(m) = o.get("exclusiveMaximum").and_then(num_of) {
                    if d.cmp(&m) != Less {
                        inv!("exclusiveMaximum");
                    }
                }
                if let Some(m) = o.get("multipleOf").and_then(num_of) {
                    match d.is_multiple_of(&m) {
                        Some(true) => {}
                        Some(false) => inv!("multipleOf"),
                        None => return Verdict::Unsupported("multipleOf magnitude".into()),
                    }
                }
            }
            J::Str(s) => {
                let len = s.chars().count() as u64;
                if let Some(m) = o.get("minLength").and_then(|x| x.as_u64()) {
                    if len < m {
                        inv!("minLength");
                    }
                }
                if let Some(m) = o.get("maxLength").and_then(|x| x.as_u64()) {
                    if len > m {
                        inv!("maxLength");
                    }
                }
                if let Some(p) = o.get("pattern").and_then(|x| x.as_str()) {
                    match regex::Regex::new(p) {
                        Ok(re) => {
                            if !re.is_match(s) {
                                inv!("pattern");
                            }
                        }
                        Err(_) => return Verdict::Unsupported("pattern syntax".into()),
                    }
                }
                if let Some(f) = o.get("format").and_then(|x| x.as_str()) {
                    match crate::formats::check(f, s) {
                        Some(true) => {}
                        Some(false) => inv!("format:{}", f),
                        None => return Verdict::Unsupported(format!("format {}", f)),
                    }
                }
            }
            J::Arr(a) => {
                let n = a.len() as u64;
                if let Some(m) = o.get("minItems").and_then(|x| x.as_u64()) {
                    if n < m {
                        inv!("minItems");
                    }
                }
                if let Some(m) = o.get("maxItems").and_then(|x| x.as_u64()) {
                    if n > m {
                        inv!("maxItems");
                    }
                }
                let prefix: &[Value] = o.get("prefixItems").and_then(|x| x.as_array()).map(|v| v.as_slice()).unwrap_or(&[]);
                for (i, x) in a.iter().enumerate() {
                    if i < prefix.len() {
                        checks.push(self.v(&prefix[i], x, depth + 1));
                    } else if let Some(it) = o.get("items") {
                        checks.push(self.v(it, x, depth + 1));
                    }
                }
            }
            J::Obj(members) => {
                let props = o.get("properties").and_then(|x| x.as_object());
                let pats: Vec<(regex::Regex, &Value)> = match o.get("patternProperties").and_then(|x| x.as_object()) {
                    Some(pp) => {
                        let mut v = vec![];
                        for (k, s2) in pp {
                            match regex::Regex::new(k) {
                                Ok(r) => v.push((r, s2)),
                                Err(_) => return Verdict::Unsupported("patternProperties syntax".into()),
                            }
                        }
                        v
                    }
                    None => vec![],
                };
                let mut distinct: Vec<&str> = vec![];
                for (k, x) in members {
                    let declared = props.is_some_and(|p| p.contains_key(k));
                    if distinct.contains(&k.as_str()) {
                        if declared {
                            inv!("duplicate declared key {:?}", k);
                        }
                    } else {
                        distinct.push(k);
                    }
                    let mut matched = false;
                    if let Some(p) = props.and_then(|p| p.get(k)) {
                        matched = true;
                        checks.push(self.v(p, x, depth + 1));
                    }
                    for (re, s2) in &pats {
                        if re.is_match(k) {
                            matched = true;
                            checks.push(self.v(s2, x, depth + 1));
                        }
                    }
                    if !matched {
                        if let Some(ap) = o.get("additionalProperties") {
                            checks.push(match self.v(ap, x, depth + 1) {
                                Verdict::Invalid(m) => Verdict::Invalid(format!("additionalProperties[{:?}]: {}", k, m)),
                                v => v,
                            });
                        }
                    }
                }
                if let Some(r) = o.get("required").and_then(|x| x.as_array()) {
                    for k in r.iter().filter_map(|x| x.as_str()) {
                        if !members.iter().any(|(k2, _)| k2 == k) {
                            inv!("required {:?}", k);
                        }
                    }
                }
                // with (tolerated) duplicates either way of counting is accepted
                let n_total = members.len() as u64;
                let n_dist = distinct.len() as u64;
                if let Some(m) = o.get("minProperties").and_then(|x| x.as_u64()) {
                    if n_total < m && n_dist < m {
                        inv!("minProperties");
                    }
                }
                if let Some(m) = o.get("maxProperties").and_then(|x| x.as_u64()) {
                    if n_total > m && n_dist > m {
                        inv!("maxProperties");
                    }
                }
            }
            _ => {}
        }
        self.all(checks.into_iter())
    }
}

pub fn validate(schema: &Value, inst: &J) -> Verdict {
    Validator::new(schema).validate(inst)
}

/// second opinion: the `jsonschema` crate with formats asserted, compiled once per schema
/// (its validators for recursive `$ref`s are never freed - reference cycles - so builds are
/// kept to one per case)
pub struct Second {
    v: Option<jsonschema::Validator>,
}

impl Second {
    pub fn new(schema: &Value) -> Second {
        let mut s = schema.clone();
        if let Some(o) = s.as_object_mut() {
            o.remove("x-guidance");
            o.entry("$schema").or_insert(Value::String("https://json-schema.org/draft/2020-12/schema".into()));
        }
        Second { v: jsonschema::options().should_validate_formats(true).build(&s).ok() }
    }
    /// `None` = cannot apply (schema not compilable there, duplicate keys, numbers beyond f64)
    pub fn valid(&self, inst: &J) -> Option<bool> {
        let v = inst.to_value()?;
        self.v.as_ref().map(|x| x.is_valid(&v))
    }
}

pub fn crate_valid(schema: &Value, inst: &J) -> Option<bool> {
    Second::new(schema).valid(inst)
}

#[cfg(test)]
mod tests {
    use super::*;
    use serde_json::json;

    #[test]
    fn decimals() {
        let d = |s: &str| Dec::parse(s).unwrap();
        use std::cmp::Ordering::*;
        assert_eq!(d("1.0").cmp(&d("1")), Equal);
        assert_eq!(d("-0.5").cmp(&d("-0.25")), Less);
        assert_eq!(d("10").cmp(&d("9.999")), Greater);
        assert_eq!(d("1e2").cmp(&d("100.0")), Equal);
        assert_eq!(d("0.2").cmp(&d("0.25")), Less);
        assert_eq!(d("123456789012345678901234567890").cmp(&d("123456789012345678901234567891")), Less);
        assert_eq!(d("7.5").is_multiple_of(&d("2.5")), Some(true));
        assert_eq!(d("7.5").is_multiple_of(&d("0.1")), Some(true));
        assert_eq!(d("7.55").is_multiple_of(&d("0.1")), Some(false));
        assert_eq!(d("65536").is_multiple_of(&d("65537")), Some(false));
        assert!(d("3.0").is_integer());
        assert!(!d("3.5").is_integer());
    }

    #[test]
    fn parser_dups_and_strictness() {
        let j = parse_json(br#"{"a":1,"a":"x"}"#).unwrap();
        assert!(j.has_duplicate_keys());
        assert!(parse_json(b"01").is_err());
        assert!(parse_json(b"1.").is_err());
        assert!(parse_json(b"\"\\ud800\"").is_err());
        assert!(parse_json(b"[1,]").is_err());
        assert_eq!(parse_json(b"\"\\ud83d\\ude00\"").unwrap(), J::Str("😀".into()));
    }

    #[test]
    fn validator_basics() {
        let s = json!({"type":"object","properties":{"a":{"type":"integer","minimum":2}},"required":["a"],"additionalProperties":{"type":"string"}});
        let ok = |t: &str| validate(&s, &parse_json(t.as_bytes()).unwrap());
        assert_eq!(ok(r#"{"a":2}"#), Verdict::Valid);
        assert_eq!(ok(r#"{"a":2.0,"b":"x"}"#), Verdict::Valid);
        assert!(matches!(ok(r#"{"a":1}"#), Verdict::Invalid(_)));
        assert!(matches!(ok(r#"{"a":2,"a":"x"}"#), Verdict::Invalid(_)));
        assert!(matches!(ok(r#"{"b":"x"}"#), Verdict::Invalid(_)));
        assert_eq!(ok(r#"{"a":2,"b":"x","b":"y"}"#), Verdict::Valid);
    }
}
