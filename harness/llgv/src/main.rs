use llgv::props;
use llgv::runner::{finish, replay_file, run_prop, seed_from_env, Prop, Tier};

fn drive<P: Prop>(p: P, mode: &str, file: Option<&str>) -> i32 {
    let seed = seed_from_env();
    match mode {
        "quick" | "thorough" => {
            let tier = if mode == "quick" { Tier::Quick } else { Tier::Thorough };
            let out = run_prop(&p, tier, seed);
            finish(&p, out, tier, seed, true)
        }
        "replay" => {
            let f = file.unwrap_or_else(|| {
                eprintln!("replay needs a file");
                std::process::exit(2)
            });
            let out = replay_file(&p, f);
            finish(&p, out, Tier::Quick, seed, false)
        }
        _ => {
            eprintln!("unknown mode {}", mode);
            2
        }
    }
}

/// Poisoning allocator: every heap block gets a 64-byte tail filled with 0xA5 which is checked
/// when the block is freed.  An out-of-bounds *read* just past an engine buffer therefore yields
/// 0xA5A5A5A5 words, an out-of-bounds *write* is noticed on free (C17).
struct Poison;
const TAIL: usize = 64;
unsafe impl std::alloc::GlobalAlloc for Poison {
    unsafe fn alloc(&self, l: std::alloc::Layout) -> *mut u8 {
        let l2 = std::alloc::Layout::from_size_align_unchecked(l.size() + TAIL, l.align());
        let p = std::alloc::System.alloc(l2);
        if !p.is_null() {
            std::ptr::write_bytes(p.add(l.size()), 0xA5, TAIL);
        }
        p
    }
    unsafe fn dealloc(&self, p: *mut u8, l: std::alloc::Layout) {
        let tail = std::slice::from_raw_parts(p.add(l.size()), TAIL);
        if tail.iter().any(|b| *b != 0xA5) {
            llgv::props::c17::HEAP_TAIL_CORRUPTED.store(true, std::sync::atomic::Ordering::SeqCst);
        }
        let l2 = std::alloc::Layout::from_size_align_unchecked(l.size() + TAIL, l.align());
        std::alloc::System.dealloc(p, l2);
    }
    unsafe fn alloc_zeroed(&self, l: std::alloc::Layout) -> *mut u8 {
        let p = self.alloc(l);
        if !p.is_null() {
            std::ptr::write_bytes(p, 0, l.size());
        }
        p
    }
    unsafe fn realloc(&self, p: *mut u8, l: std::alloc::Layout, new_size: usize) -> *mut u8 {
        let nl = std::alloc::Layout::from_size_align_unchecked(new_size, l.align());
        let np = self.alloc(nl);
        if !np.is_null() {
            std::ptr::copy_nonoverlapping(p, np, l.size().min(new_size));
            self.dealloc(p, l);
        }
        np
    }
}

#[global_allocator]
static GLOBAL: Poison = Poison;

fn main() {
    // engine panics are caught by the engine itself (catch_unwind); keep the default hook quiet
    std::panic::set_hook(Box::new(|_| {}));
    let args: Vec<String> = std::env::args().collect();
    if args.len() < 3 {
        eprintln!("usage: check <Cxx> quick|thorough|replay [file]");
        std::process::exit(2);
    }
    let mode = args[2].as_str();
    let file = args.get(3).map(|s| s.as_str());
    if args[1] == "C20W" {
        std::process::exit(props::c20::worker_main(&args[2..]));
    }
    if args[1] == "C20" {
        std::process::exit(props::c20::main_c20(mode, file));
    }
    // address-space limit: an engine that allocates without bound (seen with seeded faults) makes this process
    // abort (reported by run.sh as an infrastructure exit, or as the violation already printed) instead of
    // waking the kernel's OOM killer
    unsafe {
        let lim = libc::rlimit { rlim_cur: 52 << 30, rlim_max: 52 << 30 };
        libc::setrlimit(libc::RLIMIT_AS, &lim);
    }
    let code = match args[1].as_str() {
        "C01" => drive(props::c01::C01, mode, file),
        "C02" => drive(props::c02::C02, mode, file),
        "C06" => drive(props::c06::C06, mode, file),
        "C07" => drive(props::c06::C07, mode, file),
        "C08" => drive(props::c08::C08, mode, file),
        "C09" => drive(props::c09::C09, mode, file),
        "C10" => drive(props::c02::C10, mode, file),
        "C03" => drive(props::c03::C03, mode, file),
        "C04" => drive(props::c04::C04, mode, file),
        "C05" => drive(props::c05::C05, mode, file),
        "C11" => drive(props::c11::C11, mode, file),
        "C13" => drive(props::c13::C13, mode, file),
        "C14" => drive(props::c14::C14, mode, file),
        "C15" => drive(props::c15::C15, mode, file),
        "C16" => drive(props::c16::C16, mode, file),
        "C17" => drive(props::c17::C17, mode, file),
        "C18" => drive(props::c18::C18, mode, file),
        "C19" => drive(props::c19::C19, mode, file),
        "C12" => drive(props::c11::C12, mode, file),
        other => {
            eprintln!("unknown property {}", other);
            2
        }
    };
    std::process::exit(code);
}
