//! C01 — the token mask is exactly the set of tokens the engine will accept next.

use crate::engine::{factory, matcher, short_err, GrammarSpec};
use crate::runner::{Ctx, Prop, Tier, R};
use crate::util::{esc, frac, Fnv};
use crate::vocab::{Vocab, VocabSpec};
use crate::walk::{choose, mask_ids, steps, syn_vocab_strategy, Step};
use llguidance::Matcher;
use proptest::prelude::*;
use serde::{Deserialize, Serialize};

#[derive(Clone, Debug, Serialize, Deserialize)]
pub struct Case {
    pub g: GrammarSpec,
    pub vocab: VocabSpec,
    pub walk: Vec<Step>,
    /// seeds for the sequence clause (one per visited state, cycled)
    pub seq: Vec<(u16, u16, u16)>,
    /// build the engine with the default token slices (what every real deployment does)
    #[serde(default)]
    pub slices: bool,
}

pub struct C01;

pub fn vocab_for(g: GrammarSpec, tier: Tier) -> BoxedStrategy<VocabSpec> {
    let bpe_n = tier.pick(512usize, 2048usize);
    prop_oneof![
        2 => Just(VocabSpec::byte()),
        6 => any::<bool>().prop_flat_map({ let g = g.clone(); move |c| syn_vocab_strategy(g.clone(), c) }),
        2 => any::<bool>().prop_map(move |c| VocabSpec::bpe(bpe_n, c)),
    ]
    .boxed()
}

/// What the state check found (shared with other properties that walk masks)
pub struct StateInfo {
    pub allowed: Vec<u32>,
    pub accepting: bool,
    pub forced: bool,
}

/// Full-vocabulary comparison of mask / validate / commit at the current state.
pub fn check_state(m: &mut Matcher, vocab: &Vocab, ctx: &mut Ctx, tag: &dyn Fn() -> String) -> Result<Option<StateInfo>, crate::runner::Failure> {
    let n = vocab.len();
    // side queries on clones so that this check does not depend on C11
    let ff = m.clone().compute_ff_tokens();
    let ff_bytes = if ff.is_empty() { vec![] } else { m.clone().compute_ff_bytes() };
    let accepting = match m.clone().is_accepting() {
        Ok(a) => a,
        Err(e) => {
            ctx.fail("C01/is-accepting-error", || format!("{}: is_accepting failed: {}", tag(), short_err(&e.to_string())))?;
            return Ok(None);
        }
    };
    let mask = match m.compute_mask() {
        Ok(x) => x,
        Err(e) => {
            // resource limits and dead ends are the business of C03/C20; stop the walk
            ctx.class(&format!("mask_error:{:?}", m.stop_reason()));
            let _ = e;
            return Ok(None);
        }
    };
    let forced = !ff.is_empty();
    let allowed = mask_ids(&mask, n);
    // does the lexer accept the raw marker byte 0xFF here? (only possible under a bare `~` /
    // allow_invalid_utf8; see known finding C01/marker-byte-leak)
    let marker_tok = vocab.trie().token_id(&[0xFF]);
    let marker_ok = marker_tok.is_some_and(|mt| m.clone().consume_token(mt).is_ok());
    // grammars compiled in byte mode (allow_invalid_utf8) leak the marker byte in the same way, also when the
    // vocabulary has no bare 0xFF token to probe with
    let byte_mode = tag().contains("\"allow_invalid_utf8\": true");
    let leak_key = |t: u32, dflt: &'static str| -> &'static str {
        if (marker_ok || byte_mode) && vocab.bytes(t).first().map_or(true, |b| *b == 0xFF) {
            "C01/marker-byte-leak-under-byte-level-negation"
        } else {
            dflt
        }
    };
    // no bit at or above the vocabulary size
    let mut extra_bits = false;
    mask.iter_set_entries(|i| {
        if i >= n {
            extra_bits = true
        }
    });
    if extra_bits {
        ctx.fail("C01/bit-beyond-vocab", || format!("{}: mask has a bit >= vocab size {}", tag(), n))?;
    }
    let mut n_multi_allowed = 0;
    let mut n_multi_rejected = 0;
    let full_commit = n <= 700;
    for t in 0..n as u32 {
        let mt = mask.is_allowed(t);
        let vt = match m.clone().validate_tokens(&[t]) {
            Ok(k) => k == 1,
            Err(e) => {
                ctx.fail("C01/validate-error", || format!("{}: validate_tokens([{}]) failed: {}", tag(), t, short_err(&e.to_string())))?;
                continue;
            }
        };
        let check_commit = full_commit || mt || vt || (t as usize * 16 / n) != ((t as usize + 1) * 16 / n);
        // a commit that fails on a documented resource limit (row/item limits are only enforced on the
        // commit path) gives no verdict for this token
        let ct = if check_commit {
            match m.clone().consume_token(t) {
                Ok(()) => Some(true),
                Err(e) if crate::engine::is_limit_error(&e.to_string()) => {
                    ctx.class("commit_hit_resource_limit");
                    None
                }
                Err(_) => Some(false),
            }
        } else {
            None
        };
        ctx.eval(1);
        if vocab.bytes(t).len() > 1 && vocab.is_regular(t) {
            if mt {
                n_multi_allowed += 1
            } else {
                n_multi_rejected += 1
            }
        }
        if let Some(ct) = ct {
            if vt != ct {
                ctx.fail(leak_key(t, "C01/validate-vs-commit"), || {
                    format!("{}: token {} {:?}: validate={} commit={}", tag(), t, esc(vocab.bytes(t)), vt, ct)
                })?;
            }
        }
        if !forced {
            if mt != vt {
                let key = if mt { "C01/mask-allows-rejected-token" } else { "C01/mask-misses-accepted-token" };
                ctx.fail(leak_key(t, key), || format!("{}: token {} {:?}: mask={} validate={} commit={:?}", tag(), t, esc(vocab.bytes(t)), mt, vt, ct))?;
            }
        } else if mt && !(vt && ct != Some(false)) {
            ctx.fail("C01/forced-mask-token-rejected", || format!("{}: forced token {} {:?} rejected: validate={} commit={:?}", tag(), t, esc(vocab.bytes(t)), vt, ct))?;
        }
        if vocab.is_eos(t) && mt != accepting && !forced {
            ctx.fail(leak_key(t, "C01/eos-vs-accepting"), || format!("{}: EOS {} in mask={} but is_accepting={}", tag(), t, mt, accepting))?;
        }
    }
    if forced {
        ctx.class("forced_state");
        // licensed narrowing: singleton, canonical prefix of the forced bytes
        if allowed.len() != 1 || allowed[0] != ff[0] {
            // not narrowed to ff[0]: then it must be the exact set
            for t in 0..n as u32 {
                let vt = m.clone().validate_tokens(&[t]).map(|k| k == 1).unwrap_or(false);
                if mask.is_allowed(t) != vt {
                    ctx.fail("C01/forced-mask-neither-singleton-nor-exact", || {
                        format!("{}: ff_tokens={:?} mask={:?} differs from validate at token {}", tag(), ff, allowed, t)
                    })?;
                    break;
                }
            }
        } else if !ff_bytes.starts_with(vocab.bytes(ff[0])) && vocab.is_regular(ff[0]) {
            ctx.fail("C01/forced-token-not-prefix-of-forced-bytes", || {
                format!("{}: forced token {:?} vs forced bytes {:?}", tag(), esc(vocab.bytes(ff[0])), esc(&ff_bytes))
            })?;
        }
    }
    if allowed.len() > 1 && allowed.len() < n && n_multi_allowed > 0 && n_multi_rejected > 0 {
        ctx.class("nontrivial_state");
    }
    Ok(Some(StateInfo { allowed, accepting, forced }))
}

/// `validate_tokens(seq)` == number of tokens committed one by one before the first error
pub fn check_sequence(m: &Matcher, vocab: &Vocab, seed: (u16, u16, u16), ctx: &mut Ctx, tag: &dyn Fn() -> String) -> R {
    let n = vocab.len();
    let len = 1 + frac(seed.0, 7);
    // build a sequence by a mask walk on a clone
    let mut w = m.clone();
    let mut seq: Vec<u32> = vec![];
    for i in 0..len {
        if w.is_stopped() {
            break;
        }
        let mask = match w.compute_mask() {
            Ok(x) => x,
            Err(_) => break,
        };
        let ids = mask_ids(&mask, n);
        if ids.is_empty() {
            break;
        }
        let t = ids[frac(seed.1.wrapping_mul(31).wrapping_add(i as u16 * 7919), ids.len())];
        seq.push(t);
        if w.consume_token(t).is_err() {
            break;
        }
    }
    // splice in 0-2 arbitrary tokens / EOS
    let kind = seed.2 % 5;
    if kind >= 1 && !seq.is_empty() {
        let pos = frac(seed.2.wrapping_mul(13), seq.len() + 1);
        let t = frac(seed.1 ^ seed.2, n) as u32;
        if kind == 1 {
            seq.insert(pos, t);
        } else if kind == 2 {
            let p2 = pos.min(seq.len() - 1);
            seq[p2] = t;
        } else if kind == 3 {
            seq.push(vocab.eos[0]);
        } else {
            seq.insert(pos, vocab.eos[vocab.eos.len() - 1]);
            seq.push(t);
        }
    }
    if seq.is_empty() {
        return Ok(());
    }
    let v = match m.clone().validate_tokens(&seq) {
        Ok(v) => v,
        Err(e) => {
            return ctx.fail("C01/validate-error", || format!("{}: validate_tokens({:?}) failed: {}", tag(), seq, short_err(&e.to_string())));
        }
    };
    let mut c = m.clone();
    let mut committed = 0;
    let mut stop_before_failure = c.stop_reason();
    for &t in &seq {
        stop_before_failure = c.stop_reason();
        match c.consume_token(t) {
            Ok(()) => committed += 1,
            Err(e) => {
                if crate::engine::is_limit_error(&e.to_string()) {
                    ctx.class("commit_hit_resource_limit");
                    return Ok(());
                }
                break;
            }
        }
    }
    ctx.eval(1);
    ctx.class("sequence_checks");
    if v != committed {
        // signature of the known finding: the only surplus token is an EOS that directly follows
        // the token at which the matcher latched a NoExtension stop
        let first_diff = v.min(committed);
        let key = if v == committed + 1
            && vocab.is_eos(seq[committed])
            && stop_before_failure == llguidance::api::StopReason::NoExtension
        {
            "C01/validate-counts-eos-after-noextension-stop"
        } else if first_diff < seq.len() && vocab.bytes(seq[first_diff]).first().map_or(true, |b| *b == 0xFF) && {
            // marker-byte leak: the lexer accepts the raw byte 0xFF at the point of disagreement
            let mut c2 = m.clone();
            let ok = c2.consume_tokens(&seq[..first_diff]).is_ok();
            ok && vocab.trie().token_id(&[0xFF]).is_some_and(|mt| c2.consume_token(mt).is_ok())
        } {
            "C01/marker-byte-leak-under-byte-level-negation"
        } else {
            "C01/validate-count-vs-commit-count"
        };
        return ctx.fail(key, || {
            format!(
                "{}: validate_tokens({:?} = {:?}) = {} but {} tokens commit one by one",
                tag(),
                seq,
                seq.iter().map(|t| esc(vocab.bytes(*t))).collect::<Vec<_>>(),
                v,
                committed
            )
        });
    }
    Ok(())
}

impl Prop for C01 {
    type Case = Case;
    const ID: &'static str = "C01";

    fn rule(&self) -> String {
        "case = (grammar from regex/CFG/JSON-schema/corpus generators, vocabulary from byte/synthetic/truncated-cl100k, mask walk); \
         evaluation = one token id compared (mask bit vs validate_tokens vs consume_token on a clone) at one visited state, or one \
         validate-vs-commit sequence; non-trivial = visited state with 1 < |mask| < |vocab| having at least one allowed and one rejected \
         multi-byte token, distinct by hash(grammar, vocabulary, committed tokens)"
            .into()
    }
    fn assumptions(&self) -> Vec<String> {
        vec![
            "grammars stay inside the core fragment (no max_tokens=, stop=, temperature=, no backtrack capability)".into(),
            "states where compute_mask reports a resource-limit error end the walk (C03/C20 own those)".into(),
        ]
    }
    fn cases(&self, tier: Tier) -> u32 {
        tier.pick(30, 360)
    }
    fn strategy(&self, tier: Tier) -> BoxedStrategy<Case> {
        // lazy next to greedy lexemes matter for the slicer; they are part of the core fragment
        let g = prop_oneof![8 => crate::gen::any_grammar_core_ext(), 1 => crate::props::c02::string_heavy_grammar()];
        g.prop_flat_map(move |g| {
            let voc = prop_oneof![4 => vocab_for(g.clone(), tier), 1 => crate::props::c02::slice_rich_vocab()];
            (Just(g), voc, steps(40), proptest::collection::vec(any::<(u16, u16, u16)>(), 1..8), proptest::bool::weighted(0.4))
        })
        .prop_map(|(g, vocab, walk, seq, slices)| Case { g, vocab, walk, seq, slices })
        .boxed()
    }

    fn run(&self, case: &Case, ctx: &mut Ctx) -> R {
        let vocab = match case.vocab.build() {
            Ok(v) => v,
            Err(_) => return Ok(()),
        };
        let f = if case.slices {
            ctx.class("engine_with_default_slices");
            match crate::engine::factory_ext(&vocab, &llguidance::earley::SlicedBiasComputer::general_slices(), llguidance::toktrie::InferenceCapabilities::default(), None) {
                Ok(f) => f,
                Err(_) => return Ok(()),
            }
        } else {
            factory(&vocab)
        };
        let mut m = matcher(&f, &case.g);
        if m.is_error() {
            ctx.class("compile_error");
            return Ok(());
        }
        ctx.class(&format!("grammar:{}", case.g.kind()));
        ctx.class(&format!("vocab:{:?}:{}", case.vocab.base, if case.vocab.canonical { "canonical" } else { "plain" }));
        let gh = Fnv::new().str(&case.g.text()).str(&format!("{:?}", case.vocab)).finish();
        let mut committed: Vec<u32> = vec![];
        for (i, st) in case.walk.iter().enumerate() {
            if m.is_stopped() {
                ctx.class(&format!("stopped:{:?}", m.stop_reason()));
                break;
            }
            let tag = {
                let g = case.g.text();
                let c = committed.clone();
                move || format!("grammar {} after tokens {:?}", crate::util::truncate_str(&g, 300), c)
            };
            let info = match check_state(&mut m, &vocab, ctx, &tag)? {
                Some(i) => i,
                None => break,
            };
            ctx.class("states_visited");
            if info.allowed.len() > 1 && info.allowed.len() < vocab.len() {
                let mut h = Fnv::new().u64(gh);
                for t in &committed {
                    h = h.u64(*t as u64);
                }
                // the class counter above says whether multi-byte tokens were on both sides
                if info.allowed.iter().any(|&t| vocab.bytes(t).len() > 1 && vocab.is_regular(t)) && vocab.regular_ids.iter().any(|&t| vocab.bytes(t).len() > 1 && !info.allowed.contains(&t)) {
                    ctx.nontrivial(h.finish());
                }
            }
            let sd = case.seq[i % case.seq.len()];
            check_sequence(&m, &vocab, sd, ctx, &tag)?;
            let t = match choose(&info.allowed, &vocab, st, info.accepting) {
                Some(t) => t,
                None => break,
            };
            if let Err(e) = m.consume_token(t) {
                if crate::engine::is_limit_error(&e.to_string()) {
                    ctx.class("commit_hit_resource_limit");
                    return Ok(());
                }
                return ctx.fail("C01/mask-token-fails-to-commit", || {
                    format!("{}: committing mask-allowed token {} {:?} failed: {}", tag(), t, esc(vocab.bytes(t)), short_err(&e.to_string()))
                });
            }
            committed.push(t);
        }
        Ok(())
    }
}
