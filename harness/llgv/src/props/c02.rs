//! C02 — acceptance depends on the bytes, not on how they are split into tokens.
//! C10 — the slicing optimisation never changes a mask.

use crate::engine::{factory, factory_ext, factory_tight, is_limit_error, mask_words, matcher, short_err, GrammarSpec};
use crate::gen::any_grammar;
use crate::runner::{Ctx, Prop, Tier, R};
use crate::util::{esc, frac, truncate_str, Fnv, B};
use crate::vocab::{Vocab, VocabSpec};
use crate::walk::{byte_vocab, choose, mask_ids, steps, syn_vocab_strategy, Step};
use llguidance::toktrie::InferenceCapabilities;
use llguidance::Matcher;
use proptest::prelude::*;
use serde::{Deserialize, Serialize};
use serde_json::json;

// ------------------------------------------------------------------------------------------
// C02
// ------------------------------------------------------------------------------------------

#[derive(Clone, Debug, Serialize, Deserialize)]
pub struct Case02 {
    pub g: GrammarSpec,
    pub vocab: VocabSpec,
    pub walk: Vec<Step>,
    pub reseg: Vec<u16>,
    /// the token-level engine is built with the default token slices (the byte-level twin never is)
    #[serde(default)]
    pub slices: bool,
}

pub struct C02;

fn uses_token_refs(g: &GrammarSpec) -> bool {
    match g {
        GrammarSpec::Lark(s) => s.contains("<[") || s.contains("<|") || s.contains("<a>"),
        _ => false,
    }
}

fn bytes_as_tokens(b: &[u8]) -> Vec<u32> {
    b.iter().map(|x| *x as u32).collect()
}

/// random segmentation of `bytes` into regular tokens of `vocab` (every byte is a token, so a
/// segmentation always exists); at each position one of the matching tokens is chosen
fn resegment(vocab: &Vocab, bytes: &[u8], seeds: &[u16]) -> Vec<u32> {
    let trie = vocab.trie();
    let mut out = vec![];
    let mut i = 0;
    let mut k = 0usize;
    while i < bytes.len() {
        let mut cands: Vec<(u32, usize)> = vec![];
        let mut node = trie.root();
        for j in i..bytes.len() {
            match trie.child_at_byte(node, bytes[j]) {
                Some(c) => {
                    node = c;
                    if let Some(t) = c.token_id() {
                        if vocab.is_regular(t) {
                            cands.push((t, j + 1 - i));
                        }
                    }
                }
                None => break,
            }
        }
        if cands.is_empty() {
            // byte 0xFF cannot be produced by the walks; defensive
            cands.push((bytes[i] as u32, 1));
        }
        let s = seeds[k % seeds.len().max(1)].wrapping_add((k as u16).wrapping_mul(7919));
        let (t, l) = cands[frac(s, cands.len())];
        out.push(t);
        i += l;
        k += 1;
    }
    out
}

impl Prop for C02 {
    type Case = Case02;
    const ID: &'static str = "C02";
    fn rule(&self) -> String {
        "case = (grammar, multi-byte vocabulary (synthetic or truncated cl100k, non-canonical), mask walk, re-segmentation seeds); the twin is the \
         same grammar over the 256-byte vocabulary fed the same bytes; evaluation = one token of the larger vocabulary compared (mask bit vs \
         byte-by-byte admissibility on the twin), one accepting-flag comparison, or one re-tokenised replay compared bit for bit; non-trivial \
         = visited state with at least one allowed and one rejected multi-byte token; distinct by hash(grammar, vocabulary, committed bytes)"
            .into()
    }
    fn assumptions(&self) -> Vec<String> {
        vec![
            "grammars referring to token ids / special tokens are excluded (ids differ between vocabularies)".into(),
            "tokenizers are non-canonical, so no forced-token narrowing occurs".into(),
        ]
    }
    fn cases(&self, tier: Tier) -> u32 {
        tier.pick(800, 8000)
    }
    fn strategy(&self, tier: Tier) -> BoxedStrategy<Case02> {
        let bpe_n = tier.pick(512usize, 2048usize);
        // %ignore grammars get extra weight: skipped lexemes are where token-level and byte-level row bookkeeping differ most
        prop_oneof![8 => crate::gen::any_grammar_core_ext(), 4 => crate::cfg::cfg_with_ignore(), 1 => string_heavy_grammar()]
            .prop_flat_map(move |g| {
                let voc = prop_oneof![4 => syn_vocab_strategy(g.clone(), false), 1 => Just(VocabSpec::bpe(bpe_n, false)), 1 => slice_rich_vocab()];
                (Just(g), voc, steps(30), proptest::collection::vec(any::<u16>(), 3..10), proptest::bool::weighted(0.4))
            })
            .prop_map(|(g, vocab, walk, reseg, slices)| Case02 { g, vocab, walk, reseg, slices })
            .boxed()
    }

    fn run(&self, case: &Case02, ctx: &mut Ctx) -> R {
        if uses_token_refs(&case.g) {
            ctx.class("skipped:token_refs");
            return Ok(());
        }
        let vocab = match case.vocab.build() {
            Ok(v) => v,
            Err(_) => return Ok(()),
        };
        let n = vocab.len();
        let bv = byte_vocab();
        let mut fa = factory_tight(&vocab);
        if case.slices {
            ctx.class("token_engine_with_default_slices");
            let lim = fa.limits().clone();
            fa = match factory_ext(&vocab, &llguidance::earley::SlicedBiasComputer::general_slices(), InferenceCapabilities::default(), Some(lim)) {
                Ok(f) => f,
                Err(_) => return Ok(()),
            };
        }
        let fb = factory_tight(&bv);
        let mut a = matcher(&fa, &case.g);
        let mut twin = matcher(&fb, &case.g);
        if a.is_error() != twin.is_error() {
            let (ea, eb) = (a.get_error().unwrap_or_default(), twin.get_error().unwrap_or_default());
            if is_limit_error(&ea) || is_limit_error(&eb) {
                return Ok(());
            }
            return ctx.fail("C02/compiles-for-one-vocabulary-only", || format!("grammar {}: error A={:?} twin={:?}", case.g.text(), short_err(&ea), short_err(&eb)));
        }
        if a.is_error() {
            ctx.class("compile_error");
            return Ok(());
        }
        let gtxt = truncate_str(&case.g.text(), 400);
        let gh = Fnv::new().str(&case.g.text()).str(&format!("{:?}", case.vocab)).finish();
        let mut bytes: Vec<u8> = vec![];
        let mut toks: Vec<u32> = vec![];
        for st in &case.walk {
            macro_rules! tag {
                ($x:expr) => {
                    format!("grammar {} after bytes {:?} (tokens {:?}): {}", gtxt, esc(&bytes), toks, $x)
                };
            }
            if a.is_stopped() || twin.is_stopped() {
                ctx.eval(1);
                if a.is_stopped() != twin.is_stopped() || a.stop_reason() != twin.stop_reason() {
                    return ctx.fail("C02/stop-status-differs", || tag!(format!("A {:?} twin {:?}", a.stop_reason(), twin.stop_reason())));
                }
                break;
            }
            let (acc_a, acc_t) = (a.is_accepting().unwrap_or(false), twin.is_accepting().unwrap_or(false));
            ctx.eval(1);
            if acc_a != acc_t {
                return ctx.fail("C02/accepting-differs", || tag!(format!("is_accepting A={} twin={}", acc_a, acc_t)));
            }
            let mask = match a.compute_mask() {
                Ok(m) => m,
                Err(e) => {
                    if twin.compute_mask().is_ok() && !is_limit_error(&e.to_string()) {
                        return ctx.fail("C02/mask-fails-for-one-vocabulary-only", || tag!(short_err(&e.to_string())));
                    }
                    return Ok(());
                }
            };
            let mut multi_allowed = 0;
            let mut multi_rejected = 0;
            for t in 0..n as u32 {
                if !vocab.is_regular(t) {
                    continue;
                }
                let b = vocab.bytes(t);
                if b.contains(&0xFF) {
                    continue;
                }
                let want = match twin.clone().validate_tokens(&bytes_as_tokens(b)) {
                    Ok(k) => k == b.len(),
                    Err(_) => continue,
                };
                let got = mask.is_allowed(t);
                ctx.eval(1);
                if b.len() > 1 {
                    if got {
                        multi_allowed += 1
                    } else {
                        multi_rejected += 1
                    }
                }
                if want != got {
                    let key = if got { "C02/token-allowed-but-bytes-rejected" } else { "C02/token-rejected-but-bytes-allowed" };
                    return ctx.fail(key, || tag!(format!("token {} {:?}: mask={} bytes one at a time on the twin={}", t, esc(b), got, want)));
                }
            }
            if multi_allowed > 0 && multi_rejected > 0 {
                let mut h = Fnv::new().u64(gh);
                h = h.bytes(&bytes);
                ctx.nontrivial(h.finish());
            }
            let ids = mask_ids(&mask, n);
            let t = match choose(&ids, &vocab, st, acc_a) {
                Some(t) => t,
                None => break,
            };
            if vocab.is_eos(t) || !vocab.is_regular(t) {
                break;
            }
            if let Err(e) = a.consume_token(t) {
                if is_limit_error(&e.to_string()) {
                    return Ok(());
                }
                return ctx.fail("C02/mask-token-fails-to-commit", || tag!(format!("token {}: {}", t, short_err(&e.to_string()))));
            }
            // the twin must admit the same bytes, one at a time, each inside its mask
            for &x in vocab.bytes(t) {
                let tm = match twin.compute_mask() {
                    Ok(m) => m,
                    Err(e) => {
                        if is_limit_error(&e.to_string()) {
                            return Ok(());
                        }
                        return ctx.fail("C02/twin-dead-inside-allowed-token", || tag!(format!("token {:?}: twin mask failed: {}", esc(vocab.bytes(t)), short_err(&e.to_string()))));
                    }
                };
                ctx.eval(1);
                let allowed_here = tm.is_allowed(x as u32);
                let cres = if allowed_here { twin.consume_token(x as u32) } else { Ok(()) };
                if let Err(e) = &cres {
                    if is_limit_error(&e.to_string()) {
                        return Ok(());
                    }
                }
                if !allowed_here || cres.is_err() {
                    return ctx.fail("C02/twin-rejects-byte-of-allowed-token", || tag!(format!("token {:?}: byte {:#x} not allowed on the twin (twin mask = {:?}, twin stop {:?})", esc(vocab.bytes(t)), x, mask_ids(&tm, 257), twin.stop_reason())));
                }
            }
            bytes.extend_from_slice(vocab.bytes(t));
            toks.push(t);

            // re-tokenisation of the whole history on a fresh engine
            let seg = resegment(&vocab, &bytes, &case.reseg);
            if seg != toks {
                let f2 = factory_tight(&vocab);
                let mut a2 = matcher(&f2, &case.g);
                let mut ok = true;
                for &s in &seg {
                    if a2.consume_token(s).is_err() {
                        ok = false;
                        break;
                    }
                }
                ctx.eval(1);
                ctx.class("resegmentations");
                if !ok {
                    let e = a2.get_error().unwrap_or_default();
                    if is_limit_error(&e) {
                        return Ok(());
                    }
                    return ctx.fail("C02/resegmentation-rejected", || tag!(format!("same bytes as tokens {:?} are rejected: {}", seg, short_err(&e))));
                }
                let o1 = crate::props::c11::observe(&mut a.clone(), n, false);
                let o2 = crate::props::c11::observe(&mut a2, n, false);
                if o1.mask_err_is_limit || o2.mask_err_is_limit {
                    return Ok(());
                }
                if o1 != o2 {
                    return ctx.fail("C02/resegmentation-leaves-different-state", || tag!(format!("same bytes as tokens {:?}: observables differ (stop {:?}/{:?}, accepting {:?}/{:?}, masks equal={})", seg, o1.reason, o2.reason, o1.accepting, o2.accepting, o1.mask == o2.mask)));
                }
            }
        }
        Ok(())
    }
}

// ------------------------------------------------------------------------------------------
// C10
// ------------------------------------------------------------------------------------------

#[derive(Clone, Debug, Serialize, Deserialize)]
pub enum Slices {
    General,
    Custom(Vec<String>),
}

#[derive(Clone, Debug, Serialize, Deserialize)]
pub struct Case10 {
    pub g: GrammarSpec,
    pub vocab: VocabSpec,
    pub slices: Slices,
    pub walk: Vec<Step>,
}

pub struct C10;

fn slice_regex() -> impl Strategy<Value = String> {
    let class = prop_oneof![
        Just("[a-z]"),
        Just("[a-zA-Z0-9]"),
        Just("[0-9]"),
        Just("[^\"\\\\\\x00-\\x1F\\x7F]"),
        Just("[\\x20\\x0A\\x0D\\x09]"),
        Just("[a-z ]"),
        Just("[^\"\\\\]"),
        Just("[a-c]"),
        Just("[ -~]"),
        Just("(.|\\n)"),
    ];
    (class, prop_oneof![Just("+".to_string()), Just("{1,3}".to_string()), Just("{1,10}".to_string()), Just("{2,5}".to_string()), Just("*".to_string()), Just("".to_string())])
        .prop_map(|(c, r)| format!("{}{}", c, r))
}

fn slices_strategy() -> impl Strategy<Value = Slices> {
    prop_oneof![
        2 => Just(Slices::General),
        3 => proptest::collection::vec(slice_regex(), 1..5).prop_map(|mut v| {
            // the engine asserts on literally repeated slice regexes when a grammar is compiled
            // ("repeating slices?"); such lists never yield an engine, so avoid them by construction
            let mut seen = std::collections::HashSet::new();
            v.retain(|x| seen.insert(x.clone()));
            Slices::Custom(v)
        }),
    ]
}

pub fn string_heavy_grammar() -> BoxedStrategy<GrammarSpec> {
    let s = (0u64..4, 0u64..40, 0usize..6).prop_map(|(lo, span, kind)| {
        let str_s = match kind {
            0 => json!({"type":"string","minLength":lo,"maxLength":lo+span}),
            1 => json!({"type":"string","pattern":"^[a-z]{2,12}$"}),
            2 => json!({"type":"string","format":"date"}),
            3 => json!({"enum":["alpha","alphabet","beta","be","gamma delta"]}),
            4 => json!({"type":"string","maxLength":span}),
            _ => json!({"type":"string"}),
        };
        GrammarSpec::Json(json!({"type":"object","properties":{"name":str_s,"tags":{"type":"array","items":{"type":"string","maxLength":lo+3}}},"required":["name"],"additionalProperties":false}))
    });
    // a bounded run of a wide class, counted in characters or (allow_invalid_utf8) in bytes: tokens of multi-byte
    // characters are as long as the slices' bounds in one unit and longer in the other
    let wide = (3u32..42, prop_oneof![Just("[^\"]"), Just("[^\\n]"), Just("."), Just("(?s:.)")], any::<bool>(), any::<bool>()).prop_map(|(n, cl, bytes, quoted)| {
        let head = if bytes { "%llguidance {\"allow_invalid_utf8\": true}\n" } else { "" };
        if quoted {
            GrammarSpec::Lark(format!("{}start: \"\\\"\" BODY \"\\\"\"\nBODY: /{}{{0,{}}}/\n", head, cl, n))
        } else {
            GrammarSpec::Lark(format!("{}start: /{}{{0,{}}}/\n", head, cl, n))
        }
    });
    prop_oneof![
        3 => s,
        2 => wide,
        1 => Just(GrammarSpec::Lark("start: \"<\" TEXT \">\" %json {\"type\":\"string\",\"maxLength\":7}\nTEXT: /[a-z ]{0,20}/\n".into())),
        1 => Just(GrammarSpec::Lark("start: STR (\",\" STR)*\nSTR: /\"[^\"\\\\\\x00-\\x1F\\x7F]{0,12}\"/\n".into())),
        1 => Just(GrammarSpec::Regex("\"([^\"\\\\\\x00-\\x1F\\x7F]|\\\\[\"\\\\/bfnrt])*\"".into())),
        // lazy and greedy lexemes alive in the same lexer state (a slice may be contained in the greedy one only)
        1 => Just(GrammarSpec::Lark("start: TEXT \"\\\"\" | key \"=\"\nTEXT: /[^\"]+/\nkey[lazy]: /[a-z]+:/\n".into())),
        1 => Just(GrammarSpec::Lark("start: (word | tag)+\nword: /[a-z ]+/ \".\"\ntag[lazy]: /[a-z]*>/\n".into())),
        1 => Just(GrammarSpec::Lark("start: q rest\nq[suffix=\";\"]: /[a-z ]+/\nrest: /[a-z;]*/\n".into())),
        1 => Just(GrammarSpec::Lark("start: hd /[0-9a-z]+/\nhd[lazy]: /[a-z0-9 ]*:/\n".into())),
    ]
    .boxed()
}

pub fn slice_rich_vocab() -> BoxedStrategy<VocabSpec> {
    let tok = prop_oneof![
        6 => proptest::collection::vec(prop_oneof![Just(b'a'), Just(b'b'), Just(b'e'), Just(b't'), Just(b'l'), Just(b'p'), Just(b'h'), Just(b'z'), Just(b' '), Just(b'0'), Just(b'1'), Just(b'2'), Just(b'-'), Just(b'A'), Just(b':'), Just(b'>'), Just(b';'), Just(b'.'), Just(b'=')], 1..12),
        1 => proptest::collection::vec(prop_oneof![Just(b'a'), Just(b'x'), Just(b' ')], 12..40),
        2 => proptest::collection::vec(prop_oneof![Just(b'"'), Just(b','), Just(b':'), Just(b'{'), Just(b'}'), Just(b'a'), Just(b' '), Just(b'\\'), Just(b'n'), Just(b'['), Just(b']')], 2..5),
        1 => Just("é".as_bytes().to_vec()),
        1 => (1usize..9, prop_oneof![Just("é"), Just("€"), Just("😀"), Just("aé")]).prop_map(|(k, c)| c.repeat(k).into_bytes()),
        1 => Just("aé".as_bytes()[..2].to_vec()),
        1 => Just("  ".as_bytes().to_vec()),
        1 => Just("\n ".as_bytes().to_vec()),
    ];
    (proptest::collection::vec(tok, 40..300), 0usize..4)
        .prop_map(|(extra, pad)| {
            let mut extra: Vec<B> = extra.into_iter().map(B).collect();
            extra.sort();
            extra.dedup();
            let n = 256 + extra.len() + 1;
            let pad_to = match pad {
                0 => 0,
                1 => n.div_ceil(32) * 32,
                2 => n.div_ceil(32) * 32 + 1,
                _ => n.div_ceil(32) * 32 - 1,
            };
            VocabSpec { base: crate::vocab::Base::Byte, extra, specials: vec!["<|eos|>".into()], n_eos: 1, pad_to, canonical: false }
        })
        .boxed()
}

impl Prop for C10 {
    type Case = Case10;
    const ID: &'static str = "C10";
    fn rule(&self) -> String {
        "case = (grammar weighted towards JSON strings with maxLength/pattern/format/enum, vocabulary rich in slice-matching tokens (synthetic \
         alphanumeric tokens of length 1-40 or truncated cl100k), slice list = default JSON slices or 1-4 generated regexes of shapes \
         [class]{1,n} / [class]+, mask walk); two engines (with slices / without) run in lock-step; evaluation = one state whose mask words are \
         compared bit for bit; non-trivial = state where slices_applied > 0, or a state inside a string lexeme where it is 0; distinct by \
         hash(grammar, slice list, committed tokens)"
            .into()
    }
    fn assumptions(&self) -> Vec<String> {
        vec!["slice lists the factory rejects are skipped and counted".into()]
    }
    fn cases(&self, tier: Tier) -> u32 {
        tier.pick(400, 4000)
    }
    fn strategy(&self, tier: Tier) -> BoxedStrategy<Case10> {
        let bpe_n = tier.pick(1024usize, 4096usize);
        let g = prop_oneof![3 => string_heavy_grammar(), 2 => any_grammar()];
        g.prop_flat_map(move |g| {
            let voc = prop_oneof![3 => slice_rich_vocab(), 1 => Just(VocabSpec::bpe(bpe_n, false)), 1 => syn_vocab_strategy(g.clone(), false)];
            (Just(g), voc, slices_strategy(), steps(40))
        })
        .prop_map(|(g, vocab, slices, walk)| Case10 { g, vocab, slices, walk })
        .boxed()
    }
    fn run(&self, case: &Case10, ctx: &mut Ctx) -> R {
        let vocab = match case.vocab.build() {
            Ok(v) => v,
            Err(_) => return Ok(()),
        };
        let n = vocab.len();
        let sl: Vec<String> = match &case.slices {
            Slices::General => llguidance::earley::SlicedBiasComputer::general_slices(),
            Slices::Custom(v) => v.clone(),
        };
        let fs = match factory_ext(&vocab, &sl, InferenceCapabilities::default(), None) {
            Ok(f) => f,
            Err(_) => {
                ctx.class("slice_list_rejected");
                return Ok(());
            }
        };
        let fp = factory(&vocab);
        let mut a = matcher(&fs, &case.g);
        let mut b = matcher(&fp, &case.g);
        if a.is_error() || b.is_error() {
            ctx.eval(1);
            if a.is_error() != b.is_error() {
                let (ea, eb) = (a.get_error().unwrap_or_default(), b.get_error().unwrap_or_default());
                if is_limit_error(&ea) || is_limit_error(&eb) {
                    return Ok(());
                }
                if ea.contains("repeating slices") {
                    ctx.class("slice_list_unusable(repeating)");
                    return Ok(());
                }
                // slices add extra lexemes to the lexer; only a *difference in success* is reported
                return ctx.fail("C10/compiles-with-or-without-slices-only", || format!("grammar {}: sliced={:?} plain={:?}", case.g.text(), short_err(&ea), short_err(&eb)));
            }
            ctx.class("compile_error");
            return Ok(());
        }
        let gtxt = truncate_str(&case.g.text(), 400);
        let gh = Fnv::new().str(&case.g.text()).str(&format!("{:?}", sl)).finish();
        let mut toks: Vec<u32> = vec![];
        for st in &case.walk {
            if a.is_stopped() || b.is_stopped() {
                ctx.eval(1);
                if a.stop_reason() != b.stop_reason() {
                    return ctx.fail("C10/stop-status-differs", || format!("grammar {} slices {:?} after {:?}: {:?} vs {:?}", gtxt, sl, toks, a.stop_reason(), b.stop_reason()));
                }
                break;
            }
            let ma = a.compute_mask();
            let mb = b.compute_mask();
            ctx.eval(1);
            let (ma, mb) = match (ma, mb) {
                (Ok(x), Ok(y)) => (x, y),
                (Err(e), Ok(_)) | (Ok(_), Err(e)) => {
                    if is_limit_error(&e.to_string()) {
                        return Ok(());
                    }
                    return ctx.fail("C10/mask-fails-on-one-side", || format!("grammar {} slices {:?} after {:?}: {}", gtxt, sl, toks, short_err(&e.to_string())));
                }
                (Err(_), Err(_)) => return Ok(()),
            };
            let applied = a.last_step_stats().map(|s| s.slices_applied).unwrap_or(0);
            let mut h = Fnv::new().u64(gh);
            for t in &toks {
                h = h.u64(*t as u64);
            }
            if applied > 0 {
                ctx.class("state:slices_applied");
                ctx.nontrivial(h.finish());
            } else {
                ctx.class("state:slices_not_applied");
            }
            let (wa, wb) = (mask_words(&ma, n), mask_words(&mb, n));
            if wa != wb {
                let mut d = vec![];
                for t in 0..n as u32 {
                    if ma.is_allowed(t) != mb.is_allowed(t) && d.len() < 6 {
                        d.push(format!("token {} {:?}: sliced={} plain={}", t, esc(vocab.bytes(t)), ma.is_allowed(t), mb.is_allowed(t)));
                    }
                }
                return ctx.fail("C10/mask-differs-with-slices", || format!("grammar {} slices {:?} after tokens {:?} (slices_applied={}): {}", gtxt, sl, toks, applied, d.join("; ")));
            }
            // bits above the vocabulary must be clear on both
            let mut ids = mask_ids(&mb, n);
            // the walk follows text tokens (and EOS): a byte-level grammar (allow_invalid_utf8, bare ~X) lets the marker
            // byte 0xFF through, so special tokens can sit in both masks and then fail to commit (known finding of C01/C19)
            ids.retain(|&t| vocab.is_eos(t) || (vocab.is_regular(t) && !vocab.bytes(t).contains(&0xFF)));
            let acc = b.is_accepting().unwrap_or(false);
            let t = match choose(&ids, &vocab, st, acc) {
                Some(t) => t,
                None => break,
            };
            let (ra, rb) = (a.consume_token(t), b.consume_token(t));
            if ra.is_err() || rb.is_err() {
                let e = ra.err().or(rb.err()).map(|e| e.to_string()).unwrap_or_default();
                if is_limit_error(&e) {
                    return Ok(());
                }
                return ctx.fail("C10/commit-fails", || format!("grammar {} after {:?}: token {}: {}", gtxt, toks, t, short_err(&e)));
            }
            toks.push(t);
        }
        Ok(())
    }
}

pub fn _unused(_: &Matcher) {}
