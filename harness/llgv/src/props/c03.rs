//! C03 — allowed tokens never lead into a dead end.

use crate::cfg::{cfg_case, CfgCase};
use crate::engine::{factory_tight, is_limit_error, matcher, short_err, GrammarSpec};
use crate::js::{schema_strategy, Profile};
use crate::runner::{Ctx, Prop, Tier, R};
use crate::rx::{pick_render, rx_strategy, Dfa, Rx, RxOpts};
use crate::util::{esc, truncate_str, Fnv};
use crate::vocab::{Vocab, VocabSpec};
use crate::walk::{choose, mask_ids, steps, syn_vocab_strategy, Step};
use llguidance::api::StopReason;
use llguidance::Matcher;
use proptest::prelude::*;
use serde::{Deserialize, Serialize};
use serde_json::json;
use std::collections::{BinaryHeap, HashSet};

#[derive(Clone, Debug, Serialize, Deserialize)]
pub enum G {
    Rx(Rx, u8),
    Cfg(CfgCase),
    Json(serde_json::Value),
}

#[derive(Clone, Debug, Serialize, Deserialize)]
pub struct Case {
    pub g: G,
    pub vocab: VocabSpec,
    pub walk: Vec<Step>,
}

pub struct C03;

/// Object schemas whose patternProperties / additionalProperties leave little or no room for a further key:
/// every name a pattern can match is declared, `additionalProperties` is false or a schema, optional and required
/// members are mixed.  The object is satisfiable (its declared members are), so no reachable state may be a trap.
fn covered_pattern_object() -> BoxedStrategy<serde_json::Value> {
    let leaf = prop_oneof![Just(json!({"type":"null"})), Just(json!({"type":"boolean"})), Just(json!({"type":"integer","minimum":0,"maximum":9})), Just(json!({"enum":["x","y"]}))];
    (
        proptest::sample::subsequence(vec!["a", "b", "key"], 1..=3),
        0usize..6,
        leaf.clone(),
        leaf,
        prop_oneof![3 => Just(Some(json!(false))), 1 => Just(None), 1 => Just(Some(json!({"type":"null"})))],
        proptest::collection::vec(any::<bool>(), 3),
        prop_oneof![2 => Just(Some(false)), 2 => Just(None), 1 => Just(Some(true))],
    )
        .prop_map(|(names, pat, vs, ps, addl, reqs, ws)| {
            let pat = ["^a$", "^(a|b)$", "^key$", "^[ab]$", "^(a|b|key)$", "^a"][pat];
            let mut props = serde_json::Map::new();
            let mut req = vec![];
            for (i, n) in names.iter().enumerate() {
                props.insert(n.to_string(), vs.clone());
                if reqs[i] {
                    req.push(json!(n));
                }
            }
            let mut m = serde_json::Map::new();
            if let Some(w) = ws {
                m.insert("x-guidance".into(), json!({"whitespace_flexible": w}));
            }
            m.insert("type".into(), json!("object"));
            m.insert("properties".into(), serde_json::Value::Object(props));
            if !req.is_empty() {
                m.insert("required".into(), json!(req));
            }
            m.insert("patternProperties".into(), json!({ pat: ps }));
            if let Some(a) = addl {
                m.insert("additionalProperties".into(), a);
            }
            serde_json::Value::Object(m)
        })
        .boxed()
}

fn numeric_heavy_schema() -> BoxedStrategy<serde_json::Value> {
    prop_oneof![
        (-2000i64..2000, 1i64..3000, prop_oneof![Just(json!(7)), Just(json!(13)), Just(json!(0.5)), Just(json!(2.5)), Just(json!(100))]).prop_map(|(lo, span, m)| json!({"type":"number","minimum":lo,"maximum":lo+span,"multipleOf":m})),
        // narrow windows on both sides of zero that hold one multiple or none (the empty ones have to be rejected when the
        // schema is compiled, here as the value of an optional property so that a wrongly compiled one is reached by the walk)
        (-60i64..60, 0i64..9, prop_oneof![Just(json!(3)), Just(json!(7)), Just(json!(10)), Just(json!(2.5)), Just(json!(0.5))], any::<bool>(), any::<bool>()).prop_map(|(lo, span, m, int, opt)| {
            let v = json!({"type": if int { "integer" } else { "number" },"minimum":lo,"maximum":lo+span,"multipleOf":m});
            if opt { json!({"type":"object","properties":{"a":v,"b":{"type":"null"}},"required":["b"],"additionalProperties":false}) } else { v }
        }),
        (-500i64..500, 0i64..40).prop_map(|(lo, span)| json!({"type":"integer","exclusiveMinimum":lo,"exclusiveMaximum":lo+span+2})),
        (0u64..4, 0u64..5).prop_map(|(lo, span)| json!({"type":"string","minLength":lo,"maxLength":lo+span,"pattern":"^[a-c0-9]*$"})),
        (0..crate::formats::FORMATS.len()).prop_map(|i| json!({"type":"object","properties":{"f":{"type":"string","format":crate::formats::FORMATS[i]}},"required":["f"],"additionalProperties":false})),
        Just(json!({"allOf":[{"type":"integer","minimum":10},{"maximum":400,"multipleOf":7},{"multipleOf":3}]})),
        Just(json!({"allOf":[{"type":"string","minLength":2},{"maxLength":5,"pattern":"^a"}]})),
        Just(json!({"type":"array","items":{"type":"number","minimum":0.5,"maximum":99.5},"minItems":2,"maxItems":4})),
        Just(json!({"type":"object","additionalProperties":{"type":"integer","multipleOf":5},"minProperties":2,"maxProperties":3})),
    ]
    .boxed()
}

/// byte preference for the completion search: closers first
fn rank(b: u8) -> u32 {
    const PREF: &[u8] = b"\"}]0,:1-2Ta5eutrnlfsZ.9 :+";
    PREF.iter().position(|x| *x == b).map(|p| p as u32).unwrap_or(100 + b as u32)
}

#[derive(PartialEq, Eq)]
struct Node {
    cost: u32,
    path: Vec<u8>,
}
impl Ord for Node {
    fn cmp(&self, o: &Self) -> std::cmp::Ordering {
        o.cost.cmp(&self.cost).then_with(|| o.path.cmp(&self.path))
    }
}
impl PartialOrd for Node {
    fn partial_cmp(&self, o: &Self) -> Option<std::cmp::Ordering> {
        Some(self.cmp(o))
    }
}

pub enum Search {
    Found(Vec<u8>),
    /// the whole reachable state space was explored without reaching a stop
    Exhausted(usize),
    Inconclusive,
}

/// best-first search for a byte completion that ends in an accepting state
pub fn find_completion(m: &Matcher, vocab: &Vocab, budget: usize) -> Search {
    let byte_tok: Vec<Option<u32>> = (0..=255u8).map(|b| if b == 0xFF { None } else { vocab.trie().token_id(&[b]) }).collect();
    let mut heap = BinaryHeap::new();
    heap.push(Node { cost: 0, path: vec![] });
    let mut nodes = 0usize;
    let mut complete = true;
    let mut seen: HashSet<u64> = HashSet::new();
    while let Some(Node { cost, path }) = heap.pop() {
        nodes += 1;
        if nodes > budget {
            return Search::Inconclusive;
        }
        let mut c = m.clone();
        let mut ok = true;
        for &b in &path {
            if c.consume_token(byte_tok[b as usize].unwrap()).is_err() {
                ok = false;
                break;
            }
        }
        if !ok {
            if c.get_error().is_some_and(|e| is_limit_error(&e)) {
                return Search::Inconclusive;
            }
            continue;
        }
        if c.is_stopped() {
            if c.stop_reason() == StopReason::NoExtension || c.stop_reason() == StopReason::EndOfSentence {
                return Search::Found(path);
            }
            continue;
        }
        if c.is_accepting().unwrap_or(false) {
            return Search::Found(path);
        }
        let mask = match c.compute_mask() {
            Ok(x) => x,
            Err(e) => {
                if is_limit_error(&e.to_string()) {
                    return Search::Inconclusive;
                }
                continue;
            }
        };
        // dedup on (mask, forced bytes) is unsound in general; we only dedup exact repeats of the
        // same path hash to keep the frontier small
        let h = Fnv::new().bytes(&path).finish();
        if !seen.insert(h) {
            continue;
        }
        let mut bytes: Vec<u8> = (0..255u8).filter(|b| byte_tok[*b as usize].is_some_and(|t| mask.is_allowed(t))).collect();
        bytes.sort_by_key(|b| rank(*b));
        const K: usize = 5;
        if bytes.len() > K {
            complete = false;
        }
        for (i, b) in bytes.into_iter().take(K).enumerate() {
            let mut p = path.clone();
            p.push(b);
            heap.push(Node { cost: cost + 1 + i as u32, path: p });
        }
    }
    if complete {
        Search::Exhausted(nodes)
    } else {
        Search::Inconclusive
    }
}

impl Prop for C03 {
    type Case = Case;
    const ID: &'static str = "C03";
    fn rule(&self) -> String {
        "case = (non-empty regex (incl. & ~ {m,n}), reduced CFG / parametric template, or JSON schema of profile `all` weighted towards numeric \
         ranges, multipleOf, length bounds, patterns, formats and allOf intersections; byte-complete synthetic vocabulary; mask walk); at every \
         visited state the mask must be computable and non-empty unless the state is accepting, a stop must be NoExtension/EndOfSentence in an \
         accepting state, and a finite completion must exist: for regexes the reference DFA's shortest completion must be accepted by the engine \
         (exact), otherwise a best-first search over byte continuations (closer-biased, node budget) must find a stop; an exhausted search is a \
         violation, an exceeded budget is inconclusive. evaluation = one visited state; non-trivial = state at depth >= 3 that is not accepting; \
         distinct by hash(grammar, committed tokens)"
            .into()
    }
    fn assumptions(&self) -> Vec<String> {
        vec![
            "JSON/CFG completion is a bounded search: budget exhaustion is counted as inconclusive, never as a violation".into(),
            "resource-limit stops end a walk without verdict".into(),
        ]
    }
    fn cases(&self, tier: Tier) -> u32 {
        tier.pick(500, 5000)
    }
    fn strategy(&self, tier: Tier) -> BoxedStrategy<Case> {
        let depth = tier.pick(3, 4);
        let g = prop_oneof![
            2 => (rx_strategy(RxOpts { depth, max_weight: 60, ..RxOpts::default() }), any::<u8>()).prop_map(|(r, s)| G::Rx(r, s)),
            2 => cfg_case().prop_map(G::Cfg),
            2 => schema_strategy(Profile::All).prop_map(G::Json),
            2 => numeric_heavy_schema().prop_map(G::Json),
            1 => covered_pattern_object().prop_map(G::Json),
        ];
        g.prop_flat_map(|g| {
            let gs = spec_of(&g);
            (Just(g), prop_oneof![1 => Just(VocabSpec::byte()), 3 => syn_vocab_strategy(gs, false)], steps(24))
        })
        .prop_map(|(g, vocab, walk)| Case { g, vocab, walk })
        .boxed()
    }

    fn run(&self, case: &Case, ctx: &mut Ctx) -> R {
        let gs = spec_of(&case.g);
        let dfa: Option<Dfa> = match &case.g {
            G::Rx(rx, _) => match Dfa::from_rx(rx) {
                Ok(d) => {
                    if d.is_empty_language() {
                        ctx.class("empty_language(skipped)");
                        return Ok(());
                    }
                    Some(d)
                }
                Err(_) => return Ok(()),
            },
            _ => None,
        };
        if let G::Cfg(c) = &case.g {
            let (_, bnf) = c.build();
            match bnf.analyse() {
                Some(a) if a.all_productive => {}
                _ => {
                    ctx.class("not_reduced(skipped)");
                    return Ok(());
                }
            }
        }
        let vocab = match case.vocab.build() {
            Ok(v) => v,
            Err(_) => return Ok(()),
        };
        let n = vocab.len();
        let f = factory_tight(&vocab);
        let mut m = matcher(&f, &gs);
        if m.is_error() {
            ctx.class("compile_error");
            return Ok(());
        }
        ctx.class(match case.g {
            G::Rx(..) => "grammar:regex",
            G::Cfg(..) => "grammar:cfg",
            G::Json(..) => "grammar:json",
        });
        let gtxt = truncate_str(&gs.text(), 400);
        let gh = Fnv::new().str(&gs.text()).finish();
        let mut toks: Vec<u32> = vec![];
        let mut bytes: Vec<u8> = vec![];
        let budget = ctx.tier.pick(1500usize, 8000usize);
        for (depth, st) in case.walk.iter().enumerate() {
            let tag = |x: String| format!("grammar {} after tokens {:?} (bytes {:?}): {}", gtxt, toks, esc(&bytes), x);
            ctx.eval(1);
            if m.is_stopped() {
                let r = m.stop_reason();
                if !(r == StopReason::NoExtension || r == StopReason::EndOfSentence) {
                    if m.get_error().is_some_and(|e| is_limit_error(&e)) {
                        return Ok(());
                    }
                    return ctx.fail("C03/stopped-for-other-reason", || tag(format!("stop reason {:?} {:?}", r, m.get_error().map(|e| short_err(&e)))));
                }
                // a NoExtension stop must be an accepting state: check on the reference / by rollback
                if let Some(d) = &dfa {
                    if !d.accepts(&bytes) {
                        return ctx.fail("C03/stopped-in-non-accepting-state", || tag(format!("{:?} but the reference does not accept the bytes", r)));
                    }
                }
                break;
            }
            let accepting = m.is_accepting().unwrap_or(false);
            let mask = match m.compute_mask() {
                Ok(x) => x,
                Err(e) => {
                    let msg = e.to_string();
                    if is_limit_error(&msg) {
                        ctx.class("engine_limit");
                        return Ok(());
                    }
                    return ctx.fail("C03/mask-fails-in-reachable-state", || tag(format!("compute_mask failed (accepting={}): {}", accepting, short_err(&msg))));
                }
            };
            let ids = mask_ids(&mask, n);
            if ids.is_empty() {
                return ctx.fail("C03/empty-mask", || tag("empty mask returned without error".into()));
            }
            if depth >= 3 && !accepting {
                let mut h = Fnv::new().u64(gh);
                for t in &toks {
                    h = h.u64(*t as u64);
                }
                ctx.nontrivial(h.finish());
            }
            // completion
            if !accepting {
                if let Some(d) = &dfa {
                    let s = d.run(&bytes);
                    match d.shortest_completion(s) {
                        None => {
                            return ctx.fail("C03/reachable-state-not-viable", || tag("the reference says no completion exists".into()));
                        }
                        Some(c) => {
                            if !c.contains(&0xFF) {
                                let mut cl = m.clone();
                                let mut ok = true;
                                for &b in &c {
                                    let t = vocab.trie().token_id(&[b]).unwrap();
                                    if cl.consume_token(t).is_err() {
                                        ok = false;
                                        break;
                                    }
                                }
                                let fin = ok && (cl.is_stopped() && cl.stop_reason() == StopReason::NoExtension || cl.is_accepting().unwrap_or(false));
                                if !fin {
                                    if cl.get_error().is_some_and(|e| is_limit_error(&e)) {
                                        return Ok(());
                                    }
                                    return ctx.fail("C03/reference-completion-rejected", || tag(format!("completion {:?} (from the reference) is not accepted to a stop", esc(&c))));
                                }
                                ctx.class("completion:exact");
                            }
                        }
                    }
                } else if depth % 2 == 0 {
                    match find_completion(&m, &vocab, budget) {
                        Search::Found(_) => ctx.class("completion:found"),
                        Search::Inconclusive => ctx.class("completion:inconclusive"),
                        Search::Exhausted(k) => {
                            return ctx.fail("C03/no-completion-exists", || tag(format!("every continuation was explored ({} nodes) and none reaches a state where generation may stop", k)));
                        }
                    }
                }
            }
            // special / marker tokens in a mask are C19's subject (and a known finding under bare `~`);
            // the walk itself only follows text tokens
            let ids: Vec<u32> = ids.into_iter().filter(|t| vocab.is_eos(*t) || (vocab.is_regular(*t) && !vocab.bytes(*t).contains(&0xFF))).collect();
            let t = match choose(&ids, &vocab, st, accepting) {
                Some(t) => t,
                None => break,
            };
            if vocab.is_eos(t) {
                break;
            }
            if let Err(e) = m.consume_token(t) {
                if is_limit_error(&e.to_string()) {
                    return Ok(());
                }
                return ctx.fail("C03/mask-token-fails-to-commit", || tag(format!("token {}: {}", t, short_err(&e.to_string()))));
            }
            if vocab.is_regular(t) {
                bytes.extend_from_slice(vocab.bytes(t));
            }
            toks.push(t);
        }
        Ok(())
    }
}

pub fn spec_of(g: &G) -> GrammarSpec {
    match g {
        G::Rx(rx, sel) => pick_render(rx, *sel).1,
        G::Cfg(c) => c.build().0,
        G::Json(v) => GrammarSpec::Json(v.clone()),
    }
}
