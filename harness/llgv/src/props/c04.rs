//! C04 — a regular-expression constraint admits exactly the regex's language.

use crate::engine::{factory, matcher, short_err};
use crate::runner::{Ctx, Prop, Tier, R};
use crate::rx::{pick_render, rx_strategy, Dfa, Render, Rx, RxOpts, ALPHA};
use crate::util::{esc, frac, Fnv};
use crate::vocab::{Vocab, VocabSpec};
use crate::walk::syn_vocab_strategy;
use llguidance::Matcher;
use proptest::prelude::*;
use serde::{Deserialize, Serialize};
use std::collections::{HashMap, VecDeque};

#[derive(Clone, Debug, Serialize, Deserialize)]
pub struct Case {
    pub rx: Rx,
    pub render: u8,
    pub vocab: VocabSpec,
    /// random probe strings: (seed, seed, mutation kind)
    pub probes: Vec<(u16, u16, u8)>,
    /// build the engine with the default token slices (what `ParserFactory::new_simple` does)
    #[serde(default)]
    pub slices: bool,
}

/// "rest of the line" shapes: an optional literal, a long or unbounded run of a wide character class, an optional
/// terminator.  These are the lexeme states that contain whole token slices.
fn wide_rx() -> BoxedStrategy<Rx> {
    let class = prop_oneof![
        2 => Just(Rx::Dot),
        1 => Just(Rx::DotAll),
        2 => Just(Rx::Class { neg: true, items: vec![('\n', '\n')] }),
        1 => Just(Rx::Class { neg: true, items: vec![('"', '"')] }),
        1 => Just(Rx::Class { neg: true, items: vec![('-', '-'), ('a', 'a')] }),
        1 => Just(Rx::Class { neg: true, items: vec![('\n', '\n'), ('\r', '\r')] }),
    ];
    let rep = prop_oneof![
        3 => Just((0u32, None)),
        1 => Just((1u32, None)),
        2 => (0u32..3, 10u32..41).prop_map(|(a, b)| (a, Some(b))),
    ];
    let lit = prop_oneof![Just(""), Just("-"), Just("a "), Just("\n"), Just("c"), Just("\"")];
    (lit.clone(), class, rep, lit).prop_map(|(pre, cl, (lo, hi), post)| {
        let mut parts = vec![];
        if !pre.is_empty() {
            parts.push(Rx::Lit(pre.to_string()));
        }
        parts.push(match (lo, hi) {
            (0, None) => Rx::Star(Box::new(cl)),
            (1, None) => Rx::Plus(Box::new(cl)),
            (lo, hi) => Rx::Rep(Box::new(cl), lo, hi),
        });
        if !post.is_empty() {
            parts.push(Rx::Lit(post.to_string()));
        }
        if parts.len() == 1 { parts.pop().unwrap() } else { Rx::Cat(parts) }
    })
    .boxed()
}

pub struct C04;

fn alphabet_bytes() -> Vec<u8> {
    let mut v: Vec<u8> = vec![];
    for c in ALPHA {
        let mut b = [0u8; 4];
        for x in c.encode_utf8(&mut b).as_bytes() {
            if !v.contains(x) {
                v.push(*x);
            }
        }
    }
    // foreign bytes: ASCII not in the alphabet, upper case (for (?i)), stray continuation / lead bytes
    for x in [b'z', b'A', b'C', 0xC9, 0x89, 0xC3, 0x80, 0xBF, 0xF4, 0x00, 0x7F] {
        if !v.contains(&x) {
            v.push(x);
        }
    }
    v
}

/// compare the engine in its current state with DFA state `s`
fn compare_state(m: &mut Matcher, vocab: &Vocab, d: &Dfa, s: u32, ctx: &mut Ctx, tag: &dyn Fn() -> String) -> R {
    if m.is_stopped() {
        // a stop is legitimate iff the string is complete and cannot be extended (0xFF aside)
        let ext = (0..255u32).any(|b| d.is_live(d.step(s, b as u8)));
        ctx.eval(1);
        if !(d.is_acc(s) && !ext) || m.is_error() {
            return ctx.fail("C04/stopped-in-extensible-or-incomplete-state", || {
                format!("{}: engine stopped ({:?}, err={:?}) but reference: accepting={} extensible={}", tag(), m.stop_reason(), m.get_error().map(|e| short_err(&e)), d.is_acc(s), ext)
            });
        }
        return Ok(());
    }
    let acc = m.is_accepting().unwrap_or(false);
    ctx.eval(1);
    if acc != d.is_acc(s) {
        return ctx.fail("C04/accepting-flag", || format!("{}: is_accepting={} reference accepts={}", tag(), acc, d.is_acc(s)));
    }
    let mask = match m.compute_mask() {
        Ok(x) => x,
        Err(e) => {
            let any = (0..255u32).any(|b| d.is_live(d.step(s, b as u8)));
            if any || d.is_acc(s) {
                return ctx.fail("C04/mask-error-in-viable-state", || format!("{}: compute_mask failed: {}", tag(), short_err(&e.to_string())));
            }
            return Ok(());
        }
    };
    for t in 0..vocab.len() as u32 {
        if !vocab.is_regular(t) {
            continue;
        }
        let bytes = vocab.bytes(t);
        if bytes.contains(&0xFF) {
            continue;
        }
        let want = d.is_live(d.run_from(s, bytes));
        let got = mask.is_allowed(t);
        ctx.eval(1);
        if want != got {
            let key = if got { "C04/mask-allows-non-prefix" } else { "C04/mask-rejects-viable-prefix" };
            return ctx.fail(key, || format!("{}: token {:?}: mask={} reference viable={}", tag(), esc(bytes), got, want));
        }
    }
    Ok(())
}

impl Prop for C04 {
    type Case = Case;
    const ID: &'static str = "C04";
    fn rule(&self) -> String {
        "case = (regex AST over {a b c 0 1 ' ' \\n - é € 😀} with classes, ranges across UTF-8 length boundaries, '.', (?s:.), \
         bounded/unbounded repetition, alternation, &, ~, (?i), %regex substring; rendered via from_regex, /../ or Lark terminal \
         expressions; byte or synthetic vocabulary); evaluation = one token's mask bit, one accepting flag or one complete-string verdict \
         compared with the reference DFA (own Thompson+subset construction); non-trivial = regex whose minimal reference DFA has >= 4 live \
         states and uses one of & ~ {m,n} (?i) multi-byte; distinct by hash of the minimal DFA"
            .into()
    }
    fn assumptions(&self) -> Vec<String> {
        vec![
            "the marker byte 0xFF is excluded from all comparisons (tokens containing it are skipped)".into(),
            "Unicode class tables (\\p{..}, \\w) are not compared; case folding only for ASCII letters and é/É".into(),
        ]
    }
    fn cases(&self, tier: Tier) -> u32 {
        tier.pick(500, 6000)
    }
    fn strategy(&self, tier: Tier) -> BoxedStrategy<Case> {
        let depth = tier.pick(4, 5);
        (prop_oneof![7 => rx_strategy(RxOpts { depth, ..RxOpts::default() }), 1 => wide_rx()], any::<u8>())
            .prop_flat_map(|(rx, sel)| {
                let (_, g) = pick_render(&rx, sel);
                let voc = prop_oneof![1 => Just(VocabSpec::byte()), 2 => syn_vocab_strategy(g, false)];
                (Just(rx), Just(sel), voc, proptest::collection::vec(any::<(u16, u16, u8)>(), 12..40), proptest::bool::weighted(0.35))
            })
            .prop_map(|(rx, render, vocab, probes, slices)| Case { rx, render, vocab, probes, slices })
            .boxed()
    }

    fn run(&self, case: &Case, ctx: &mut Ctx) -> R {
        let d = match Dfa::from_rx(&case.rx) {
            Ok(d) => d,
            Err(_) => {
                ctx.class("reference_too_big");
                return Ok(());
            }
        };
        if d.is_empty_language() {
            ctx.class("empty_language");
            return Ok(());
        }
        let (render, g) = pick_render(&case.rx, case.render);
        let vocab = match case.vocab.build() {
            Ok(v) => v,
            Err(_) => return Ok(()),
        };
        let f = if case.slices {
            ctx.class("engine_with_default_slices");
            match crate::engine::factory_ext(&vocab, &llguidance::earley::SlicedBiasComputer::general_slices(), llguidance::toktrie::InferenceCapabilities::default(), None) {
                Ok(f) => f,
                Err(_) => return Ok(()),
            }
        } else {
            factory(&vocab)
        };
        let m0 = matcher(&f, &g);
        if let Some(e) = m0.get_error() {
            ctx.class("compile_error");
            let e = short_err(&e);
            // resource limits are documented behaviour; anything else on a non-empty language is reported
            if crate::engine::is_limit_error(&e) {
                ctx.class("compile_error:limit");
                return Ok(());
            }
            // known finding: derivre's or-simplification (ExprSet::trie_rec under mk_or) unwraps a None for a nested
            // alternation of classes with multi-byte characters, e.g. /[é-€ -1é]/ | ( /[é]/ | /[^a-é0]/ ) | /b0|c€/
            let gt = g.text();
            let key = if e.starts_with("panic: called `Option::unwrap()` on a `None` value") && gt.contains("| (") && !gt.is_ascii() {
                "C04/nested-alternation-of-multibyte-classes-panics-at-compile"
            } else {
                "C04/compile-error-on-nonempty-language"
            };
            return ctx.fail(key, || format!("grammar {} failed to compile: {}", g.text(), e));
        }
        ctx.class(&format!("render:{:?}", render));
        let mut feats = vec![];
        case.rx.features(&mut feats);
        for ft in &feats {
            ctx.class(&format!("feature:{}", ft));
        }
        let (live_states, sig) = d.minimal_signature();
        if live_states >= 4 && feats.iter().any(|f| ["and", "not", "bounded_rep", "nocase", "multibyte", "substring"].contains(f)) {
            ctx.nontrivial(sig);
        }
        let gtxt = g.text();

        // (a) BFS over the reference DFA, engine carried along as clones
        let max_states = ctx.tier.pick(60usize, 250usize);
        let per_state = 2;
        let mut visits: HashMap<u32, usize> = HashMap::new();
        let mut q: VecDeque<(u32, Vec<u8>, Matcher)> = VecDeque::new();
        q.push_back((d.start(), vec![], m0.clone()));
        let alpha = alphabet_bytes();
        let mut n_checked = 0;
        while let Some((s, path, mut m)) = q.pop_front() {
            let v = visits.entry(s).or_insert(0);
            if *v >= per_state {
                continue;
            }
            *v += 1;
            if visits.len() > max_states {
                break;
            }
            let tag = || format!("grammar {} after bytes {:?}", gtxt, esc(&path));
            compare_state(&mut m, &vocab, &d, s, ctx, &tag)?;
            n_checked += 1;
            if m.is_stopped() {
                continue;
            }
            for &b in &alpha {
                let s2 = d.step(s, b);
                if !d.is_live(s2) {
                    continue;
                }
                if visits.get(&s2).cloned().unwrap_or(0) >= per_state {
                    continue;
                }
                let mut m2 = m.clone();
                if let Err(e) = m2.consume_token(b as u32) {
                    return ctx.fail("C04/commit-of-viable-byte-failed", || {
                        format!("{} + byte {:#x}: consume failed: {}", tag(), b, short_err(&e.to_string()))
                    });
                }
                let mut p2 = path.clone();
                p2.push(b);
                q.push_back((s2, p2, m2));
            }
        }
        ctx.class_n("dfa_states_compared", n_checked);

        // (b) probe strings: sampled from the language, one-edit neighbours, random
        for (a, b, kind) in &case.probes {
            let mut sbytes: Vec<u8> = vec![];
            // walk the DFA along live transitions
            let mut s = d.start();
            let len = frac(*a, 10);
            for i in 0..len {
                let live: Vec<u8> = alpha.iter().cloned().filter(|x| d.is_live(d.step(s, *x))).collect();
                if live.is_empty() {
                    break;
                }
                let x = live[frac(b.wrapping_mul(977).wrapping_add(i as u16 * 7919), live.len())];
                sbytes.push(x);
                s = d.step(s, x);
            }
            if kind % 4 != 3 {
                if let Some(c) = d.shortest_completion(s) {
                    sbytes.extend(c);
                }
            }
            match kind % 4 {
                1 if !sbytes.is_empty() => {
                    let i = frac(*b, sbytes.len());
                    sbytes[i] = alpha[frac(*a ^ *b, alpha.len())];
                }
                2 => {
                    let i = frac(*b, sbytes.len() + 1);
                    sbytes.insert(i, alpha[frac(*a ^ *b, alpha.len())]);
                }
                _ => {}
            }
            if sbytes.contains(&0xFF) {
                continue;
            }
            let want = d.accepts(&sbytes);
            let mut toks: Vec<u32> = sbytes.iter().map(|x| *x as u32).collect();
            toks.push(vocab.eos[0]);
            let got = match m0.clone().validate_tokens(&toks) {
                Ok(n) => n == toks.len(),
                Err(e) => return ctx.fail("C04/validate-error", || format!("grammar {}: validate failed: {}", gtxt, short_err(&e.to_string()))),
            };
            ctx.eval(1);
            ctx.class(if want { "probe_in_language" } else { "probe_not_in_language" });
            if want != got {
                let key = if got { "C04/accepts-non-member" } else { "C04/rejects-member" };
                return ctx.fail(key, || format!("grammar {}: string {:?}: engine complete={} reference member={}", gtxt, esc(&sbytes), got, want));
            }
            // the same through the commit path for members
            if want {
                let mut m = m0.clone();
                let mut ok = true;
                for &x in &sbytes {
                    if m.consume_token(x as u32).is_err() {
                        ok = false;
                        break;
                    }
                }
                let fin = ok && (m.is_accepting().unwrap_or(false) || m.stop_reason() == llguidance::api::StopReason::NoExtension);
                if !fin {
                    return ctx.fail("C04/member-not-committable", || format!("grammar {}: member {:?} cannot be committed byte by byte to an accepting state", gtxt, esc(&sbytes)));
                }
            }
        }
        let _ = Fnv::new();
        let _ = Render::FromRegex;
        Ok(())
    }
}
