//! C05 — a Lark context-free grammar admits exactly the grammar's language.

use crate::cfg::{cfg_case, Analysed, CfgCase, Chart};
use crate::engine::{factory_tight, is_limit_error, matcher, short_err};
use crate::runner::{Ctx, Prop, Tier, R};
use crate::util::{esc, h_str};
use crate::vocab::{Vocab, VocabSpec};
use crate::walk::syn_vocab_strategy;
use llguidance::api::StopReason;
use llguidance::Matcher;
use proptest::prelude::*;
use serde::{Deserialize, Serialize};
use std::collections::VecDeque;

#[derive(Clone, Debug, Serialize, Deserialize)]
pub struct Case {
    pub g: CfgCase,
    pub vocab: VocabSpec,
}

pub struct C05;

pub fn chart_at<'a>(a: &'a Analysed<'a>, path: &[u8]) -> Option<Chart<'a>> {
    let mut c = Chart::new(a);
    for &b in path {
        if !c.push(b) {
            return None;
        }
    }
    Some(c)
}

/// Compare the engine at its current state with the reference chart at the same prefix.
pub fn compare(m: &mut Matcher, vocab: &Vocab, chart: &mut Chart, ctx: &mut Ctx, tag: &dyn Fn() -> String) -> R {
    let ref_acc = chart.accepting();
    let ref_ext = chart.can_extend();
    ctx.eval(1);
    if m.is_stopped() {
        if m.is_error() || !(ref_acc && !ref_ext) || m.stop_reason() != StopReason::NoExtension {
            return ctx.fail("C05/stopped-in-extensible-or-incomplete-state", || {
                format!("{}: engine stopped ({:?}, {:?}); reference: complete={} extensible={}", tag(), m.stop_reason(), m.get_error().map(|e| short_err(&e)), ref_acc, ref_ext)
            });
        }
        return Ok(());
    }
    let acc = match m.is_accepting() {
        Ok(a) => a,
        Err(e) => return ctx.fail("C05/is-accepting-error", || format!("{}: {}", tag(), short_err(&e.to_string()))),
    };
    if acc != ref_acc {
        return ctx.fail("C05/accepting-flag", || format!("{}: is_accepting={} reference derives={}", tag(), acc, ref_acc));
    }
    let mask = match m.compute_mask() {
        Ok(x) => x,
        Err(e) => {
            let msg = short_err(&e.to_string());
            if is_limit_error(&msg) {
                ctx.class("engine_limit");
                return Ok(());
            }
            return ctx.fail("C05/mask-error-in-viable-state", || format!("{}: compute_mask failed: {}", tag(), msg));
        }
    };
    let nb = chart.next_bytes();
    for t in 0..vocab.len() as u32 {
        if !vocab.is_regular(t) {
            continue;
        }
        let bytes = vocab.bytes(t);
        if bytes.contains(&0xFF) {
            continue;
        }
        let want = if bytes.len() == 1 { nb.has(bytes[0]) } else { chart.viable_ext(bytes) };
        let got = mask.is_allowed(t);
        ctx.eval(1);
        if want != got {
            let key = if got { "C05/mask-allows-non-prefix" } else { "C05/mask-rejects-viable-prefix" };
            return ctx.fail(key, || format!("{}: token {:?}: mask={} reference viable={}", tag(), esc(bytes), got, want));
        }
    }
    // EOS exactly when complete
    let eos_in = vocab.eos.iter().all(|e| mask.is_allowed(*e));
    let eos_any = vocab.eos.iter().any(|e| mask.is_allowed(*e));
    if eos_in != ref_acc || eos_any != ref_acc {
        return ctx.fail("C05/eos-vs-complete", || format!("{}: EOS in mask={}/{} reference complete={}", tag(), eos_in, eos_any, ref_acc));
    }
    Ok(())
}

impl Prop for C05 {
    type Case = Case;
    const ID: &'static str = "C05";
    fn rule(&self) -> String {
        "case = (random reduced CFG over a pool of non-confusable terminals with ? * + {m,n} [] groups, forced left/right/mutual recursion, \
         nullable chains and duplicated alternatives, or a parametric template from docs/parametric.md; byte or synthetic vocabulary); \
         all viable prefixes are enumerated breadth-first up to a node budget; evaluation = one token's mask bit / accepting flag / \
         complete-string verdict compared with the reference chart recogniser; non-trivial = grammar with >= 2 of {nullable, left recursion, \
         right recursion, mutual recursion, {m,n}, duplicated alternative, parametric}; distinct by grammar text"
            .into()
    }
    fn assumptions(&self) -> Vec<String> {
        vec![
            "terminals are literals with pairwise different first bytes or disjoint single-byte classes (side condition of C05)".into(),
            "engine resource-limit stops (ParserTooComplex/LexerTooComplex) end the exploration of that grammar".into(),
        ]
    }
    fn cases(&self, tier: Tier) -> u32 {
        tier.pick(120, 1500)
    }
    fn strategy(&self, _tier: Tier) -> BoxedStrategy<Case> {
        cfg_case()
            .prop_flat_map(|g| {
                let gs = g.build().0;
                let voc = prop_oneof![1 => Just(VocabSpec::byte()), 2 => syn_vocab_strategy(gs, false)];
                (Just(g), voc)
            })
            .prop_map(|(g, vocab)| Case { g, vocab })
            .boxed()
    }

    fn run(&self, case: &Case, ctx: &mut Ctx) -> R {
        let (gs, bnf) = case.g.build();
        let a = match bnf.analyse() {
            Some(a) => a,
            None => {
                ctx.class("reference_too_big");
                return Ok(());
            }
        };
        if !a.all_productive {
            // reduced by construction for plain grammars; templates are checked here
            ctx.class("not_reduced(skipped)");
            if matches!(case.g, CfgCase::Param(_)) {
                return Ok(());
            }
        }
        let vocab = match case.vocab.build() {
            Ok(v) => v,
            Err(_) => return Ok(()),
        };
        let f = factory_tight(&vocab);
        let m0 = matcher(&f, &gs);
        let gtxt = gs.text();
        if let Some(e) = m0.get_error() {
            let e = short_err(&e);
            ctx.class("compile_error");
            if is_limit_error(&e) {
                return Ok(());
            }
            return ctx.fail("C05/compile-error", || format!("grammar {} failed to compile: {}", gtxt, e));
        }
        let feats = case.g.features();
        for ft in &feats {
            ctx.class(&format!("feature:{}", ft));
        }
        if feats.len() >= 2 {
            ctx.nontrivial(h_str(&gtxt));
        }

        let budget = ctx.tier.pick(250usize, 1500usize);
        let max_len = ctx.tier.pick(9usize, 14usize);
        let mut q: VecDeque<(Vec<u8>, Matcher)> = VecDeque::new();
        q.push_back((vec![], m0.clone()));
        let mut nodes = 0usize;
        let mut complete = 0u64;
        while let Some((path, mut m)) = q.pop_front() {
            nodes += 1;
            if nodes > budget {
                break;
            }
            let mut chart = match chart_at(&a, &path) {
                Some(c) => c,
                None => continue,
            };
            let tag = || format!("grammar {} after bytes {:?}", gtxt, esc(&path));
            compare(&mut m, &vocab, &mut chart, ctx, &tag)?;
            if m.is_error() {
                // only reachable through the limit branch of compare()
                break;
            }
            if chart.accepting() {
                complete += 1;
                // complete-string verdict through validate_tokens(p + EOS) on a fresh engine
                let mut toks: Vec<u32> = path.iter().map(|b| *b as u32).collect();
                toks.push(vocab.eos[0]);
                let n = m0.clone().validate_tokens(&toks).unwrap_or(usize::MAX);
                ctx.eval(1);
                if n != toks.len() {
                    return ctx.fail("C05/complete-string-not-validated", || {
                        format!("grammar {}: derivable string {:?}: validate_tokens(bytes+EOS)={} of {}", gtxt, esc(&path), n, toks.len())
                    });
                }
            } else if !path.is_empty() {
                let mut toks: Vec<u32> = path.iter().map(|b| *b as u32).collect();
                toks.push(vocab.eos[0]);
                let n = m0.clone().validate_tokens(&toks).unwrap_or(usize::MAX);
                ctx.eval(1);
                if n != path.len() {
                    return ctx.fail("C05/incomplete-string-validated-with-eos", || {
                        format!("grammar {}: viable but incomplete {:?}: validate_tokens(bytes+EOS)={} expected {}", gtxt, esc(&path), n, path.len())
                    });
                }
            }
            if m.is_stopped() || path.len() >= max_len {
                continue;
            }
            let nb = chart.next_bytes();
            for b in 0..255u8 {
                if nb.has(b) {
                    let mut m2 = m.clone();
                    if let Err(e) = m2.consume_token(b as u32) {
                        if is_limit_error(&e.to_string()) {
                            ctx.class("engine_limit");
                            continue;
                        }
                        return ctx.fail("C05/commit-of-viable-byte-failed", || format!("{} + byte {:#x}: {}", tag(), b, short_err(&e.to_string())));
                    }
                    let mut p2 = path.clone();
                    p2.push(b);
                    q.push_back((p2, m2));
                }
            }
        }
        ctx.class_n("prefixes_compared", nodes as u64);
        ctx.class_n("complete_strings", complete);
        Ok(())
    }
}
