//! C06 — output generated under a JSON-schema constraint always validates.
//! C07 — every valid JSON instance in canonical form can be generated.

use crate::engine::{factory_tight, is_limit_error, matcher, short_err, GrammarSpec};
use crate::js::{gen_instance, mutate, respell_keys, schema_strategy, Profile, Tape};
use crate::jsonref::{parse_json, validate, Second, Verdict, J};
use crate::props::c03::{find_completion, Search};
use crate::runner::{Ctx, Prop, Tier, R};
use crate::util::{esc, frac, truncate_str, Fnv};
use crate::vocab::{Vocab, VocabSpec};
use crate::walk::{choose, mask_ids, steps, syn_vocab_strategy, Step};
use llguidance::api::StopReason;
use llguidance::Matcher;
use proptest::prelude::*;
use serde::{Deserialize, Serialize};
use serde_json::{json, Value};

// ------------------------------------------------------------------------------------------
// shared
// ------------------------------------------------------------------------------------------

/// Combine the reference validator with the `jsonschema` crate.
/// Ok(true) valid, Ok(false) invalid (violation material), Err = no verdict (reason)
pub fn judge(schema: &Value, sec: &Second, j: &J, ctx: &mut Ctx) -> Result<bool, String> {
    let own = validate(schema, j);
    let second = sec.valid(j);
    match own {
        Verdict::Unsupported(m) => Err(format!("reference does not model: {}", m)),
        Verdict::Valid => {
            if second == Some(false) {
                ctx.class("oracle_disagreement(reference valid, jsonschema crate invalid)");
            }
            Ok(true)
        }
        Verdict::Invalid(why) => {
            if why.contains("format:") {
                // formats: both checkers must reject
                match second {
                    Some(false) => Ok(false),
                    Some(true) => {
                        ctx.class("format_checkers_disagree(no verdict)");
                        Err("format checkers disagree".into())
                    }
                    None => Err("no second opinion".into()),
                }
            } else {
                if second == Some(true) {
                    ctx.class("oracle_disagreement(reference invalid, jsonschema crate valid)");
                    return Err(format!("oracle disagreement on {}", why));
                }
                Ok(false)
            }
        }
    }
}

fn why_invalid(schema: &Value, j: &J) -> String {
    match validate(schema, j) {
        Verdict::Invalid(w) => w,
        other => format!("{:?}", other),
    }
}

fn byte_tokens(vocab: &Vocab, bytes: &[u8]) -> Option<Vec<u32>> {
    bytes.iter().map(|b| vocab.trie().token_id(&[*b])).collect()
}

/// is `text` admitted as a complete output (validate_tokens(bytes + EOS) == n + 1)
fn admitted(m0: &Matcher, vocab: &Vocab, text: &[u8]) -> Option<bool> {
    if text.contains(&0xFF) {
        return None;
    }
    let mut toks = byte_tokens(vocab, text)?;
    toks.push(vocab.eos[0]);
    let n = m0.clone().validate_tokens(&toks).ok()?;
    Some(n == toks.len())
}

// ------------------------------------------------------------------------------------------
// C06
// ------------------------------------------------------------------------------------------

#[derive(Clone, Debug, Serialize, Deserialize)]
pub struct Case06 {
    pub schema: Value,
    pub vocab: VocabSpec,
    pub walks: Vec<Vec<Step>>,
    pub mutation_tape: Vec<u16>,
    /// hand-written complete outputs offered in addition to the walk outputs (regression replays)
    #[serde(default)]
    pub seed_outputs: Vec<String>,
}

pub struct C06;

fn unsupported_probe() -> BoxedStrategy<Value> {
    prop_oneof![
        Just(json!({"type":"integer","not":{"const":3}})),
        Just(json!({"type":"array","items":{"type":"integer","minimum":0,"maximum":3},"uniqueItems":true,"maxItems":3})),
        Just(json!({"if":{"type":"integer"},"then":{"minimum":3},"else":{"type":"string"}})),
        Just(json!({"type":"array","contains":{"const":1},"items":{"type":"integer","maximum":2,"minimum":0}})),
        Just(json!({"type":"object","propertyNames":{"pattern":"^a"},"additionalProperties":{"type":"integer"}})),
        Just(json!({"type":"object","properties":{"a":{"type":"integer"}},"dependentRequired":{"a":["b"]}})),
        Just(json!({"type":"object","properties":{"a":{"type":"integer"}},"unevaluatedProperties":false})),
        Just(json!({"type":"string","format":"iri"})),
        Just(json!({"type":"string","pattern":"^(?=a)ab$"})),
    ]
    .boxed()
}

impl Prop for C06 {
    type Case = Case06;
    const ID: &'static str = "C06";
    fn rule(&self) -> String {
        "case = (JSON schema from the `all` profile generator - type, enum, const, anyOf, allOf, oneOf, $ref incl. recursive, items, prefixItems, \
         min/maxItems, properties, required, additionalProperties, patternProperties, min/maxProperties, min/maxLength, pattern, format, numeric \
         bounds, multipleOf, sibling keywords, x-guidance options; 5% unsupported-keyword probes - vocabulary, mask walks, mutation tape); complete \
         outputs are obtained (1) by closer-biased mask walks finished by a completion search and (2) by mutating such outputs (off-by-one numbers, \
         re-spelt numbers, type swaps, dropped/extra/duplicated/renamed keys, reordered members, escaped key spellings) and keeping the mutants the \
         engine admits as complete; every admitted output must parse as RFC 8259 JSON and validate (reference validator authoritative, jsonschema \
         crate as second opinion; formats need both to reject). evaluation = one admitted output judged, or one mutant offered; non-trivial = \
         admitted output with a container or constrained scalar under a schema with >= 3 keywords; distinct by hash(schema, output)"
            .into()
    }
    fn assumptions(&self) -> Vec<String> {
        vec![
            "`lenient` and `coerce_one_of` are never set (documented semantic relaxations)".into(),
            "duplicate keys are tolerated only for keys not listed in `properties` (documented departure)".into(),
            "oracle disagreements between the reference validator and the jsonschema crate are counted, not reported".into(),
        ]
    }
    fn cases(&self, tier: Tier) -> u32 {
        tier.pick(1500, 12000)
    }
    fn strategy(&self, _tier: Tier) -> BoxedStrategy<Case06> {
        let sch = prop_oneof![19 => schema_strategy(Profile::All), 1 => unsupported_probe()];
        sch.prop_flat_map(|schema| {
            let g = GrammarSpec::Json(schema.clone());
            (
                Just(schema),
                prop_oneof![1 => Just(VocabSpec::byte()), 3 => syn_vocab_strategy(g, false)],
                proptest::collection::vec(steps(30), 2..5),
                proptest::collection::vec(any::<u16>(), 40..120),
            )
        })
        .prop_map(|(schema, vocab, walks, mutation_tape)| Case06 { schema, vocab, walks, mutation_tape, seed_outputs: vec![] })
        .boxed()
    }

    fn run(&self, case: &Case06, ctx: &mut Ctx) -> R {
        let vocab = match case.vocab.build() {
            Ok(v) => v,
            Err(_) => return Ok(()),
        };
        let n = vocab.len();
        let f = factory_tight(&vocab);
        let g = GrammarSpec::Json(case.schema.clone());
        let m0 = matcher(&f, &g);
        let stxt = truncate_str(&case.schema.to_string(), 700);
        if m0.is_error() {
            ctx.class("schema_rejected");
            return Ok(());
        }
        // a schema with a keyword the engine cannot honour must have been rejected
        let raw = case.schema.to_string();
        let unsupported_kw = ["\"not\"", "\"uniqueItems\"", "\"if\"", "\"contains\"", "\"propertyNames\"", "\"dependentRequired\"", "\"unevaluatedProperties\""].iter().any(|k| raw.contains(k));
        if unsupported_kw {
            ctx.class("unsupported_keyword_schema_compiled");
        }
        let n_keywords = raw.matches("\":").count();
        let sec = Second::new(&case.schema);
        let sh = Fnv::new().str(&raw).finish();
        let mut outputs: Vec<Vec<u8>> = vec![];
        for walk in &case.walks {
            let mut m = m0.clone();
            let mut bytes: Vec<u8> = vec![];
            let mut finished = false;
            for (i, st) in walk.iter().enumerate() {
                if m.is_stopped() {
                    finished = matches!(m.stop_reason(), StopReason::NoExtension | StopReason::EndOfSentence);
                    break;
                }
                let acc = m.is_accepting().unwrap_or(false);
                let mask = match m.compute_mask() {
                    Ok(x) => x,
                    Err(_) => break,
                };
                let mut ids: Vec<u32> = mask_ids(&mask, n).into_iter().filter(|t| vocab.is_eos(*t) || (vocab.is_regular(*t) && !vocab.bytes(*t).contains(&0xFF))).collect();
                // closer bias grows with the length of the walk
                if i * 3 > walk.len() * 2 && acc {
                    finished = true;
                    break;
                }
                if ids.is_empty() {
                    break;
                }
                if i * 2 > walk.len() {
                    let closers: Vec<u32> = ids.iter().cloned().filter(|t| vocab.is_regular(*t) && vocab.bytes(*t).iter().all(|b| b"\"}],:0123456789".contains(b))).collect();
                    if !closers.is_empty() {
                        ids = closers;
                    }
                }
                let t = match choose(&ids, &vocab, st, acc) {
                    Some(t) => t,
                    None => break,
                };
                if vocab.is_eos(t) {
                    finished = true;
                    break;
                }
                if m.consume_token(t).is_err() {
                    break;
                }
                bytes.extend_from_slice(vocab.bytes(t));
            }
            if m.is_error() {
                continue;
            }
            if !finished && m.is_stopped() {
                finished = matches!(m.stop_reason(), StopReason::NoExtension | StopReason::EndOfSentence);
            }
            if !finished {
                match find_completion(&m, &vocab, ctx.tier.pick(400, 3000)) {
                    Search::Found(c) => {
                        bytes.extend(c);
                        finished = true;
                    }
                    _ => ctx.class("walk_not_completed"),
                }
            }
            if finished {
                outputs.push(bytes);
            }
        }
        for so in &case.seed_outputs {
            if admitted(&m0, &vocab, so.as_bytes()) == Some(true) {
                outputs.push(so.as_bytes().to_vec());
            }
        }
        // ---- judge walk outputs
        let mut valid_trees: Vec<J> = vec![];
        for out in &outputs {
            ctx.eval(1);
            ctx.class("walk_outputs");
            let j = match parse_json(out) {
                Ok(j) => j,
                Err(e) => {
                    return ctx.fail("C06/output-is-not-well-formed-json", || format!("schema {}: admitted output {:?} is not JSON: {}", stxt, esc(out), e));
                }
            };
            if n_keywords >= 3 && !matches!(j, J::Null | J::Bool(_)) {
                ctx.nontrivial(Fnv::new().u64(sh).bytes(out).finish());
            }
            match judge(&case.schema, &sec, &j, ctx) {
                Ok(true) => valid_trees.push(j),
                Ok(false) => {
                    let why = why_invalid(&case.schema, &j);
                    let otxt = String::from_utf8_lossy(out).to_string();
                    let key = format_limit_key(&case.schema, &sec, &otxt, ctx).map(|s| s.to_string()).unwrap_or_else(|| classify(&why));
                    ctx.fail(&key, || format!("schema {}: output {:?} reachable through the masks does not validate: {}", stxt, esc(out), why))?;
                }
                Err(_) => ctx.class("no_verdict"),
            }
        }
        // ---- deterministic probe: every valid object output with its first key re-spelt by a \uXXXX
        // escape, keeping its value and with a few other values
        for base in valid_trees.clone() {
            for text in respell_with_values(&base) {
                ctx.eval(1);
                ctx.class("respelt_key_offered");
                if admitted(&m0, &vocab, text.as_bytes()) == Some(true) {
                    ctx.class("respelt_key_admitted");
                    if let Ok(j) = parse_json(text.as_bytes()) {
                        if let Ok(false) = judge(&case.schema, &sec, &j, ctx) {
                            let why = why_invalid(&case.schema, &j);
                            // known finding: a declared name that begins with a control character has two plain-JSON
                            // spellings (\n and \u000a); only the one the engine emits is "taken"
                            let key = if text.starts_with("{\"\\u000a") || text.starts_with("{\"\\u0009") {
                                "C06/declared-control-character-key-respelt-escapes-its-schema".to_string()
                            } else {
                                classify(&why)
                            };
                            ctx.fail(&key, || format!("schema {}: the engine admits {:?} (key re-spelt with an escape) but it does not validate: {}", stxt, text, why))?;
                        }
                    }
                }
            }
        }
        // ---- mutational negative probing
        let mut tape = Tape::new(&case.mutation_tape);
        let rounds = ctx.tier.pick(24, 80);
        for r in 0..rounds {
            if valid_trees.is_empty() {
                break;
            }
            let base = &valid_trees[r % valid_trees.len()];
            let mut mj = mutate(base, &mut tape);
            if tape.next(4) == 0 {
                mj = mutate(&mj, &mut tape);
            }
            let mut text = mj.to_compact();
            if tape.next(6) == 0 {
                if let Some(t) = respell_keys(&text) {
                    text = t;
                }
            }
            ctx.class("mutants_offered");
            ctx.eval(1);
            match admitted(&m0, &vocab, text.as_bytes()) {
                Some(true) => {}
                _ => continue,
            }
            ctx.class("mutants_admitted");
            let j = match parse_json(text.as_bytes()) {
                Ok(j) => j,
                Err(e) => {
                    return ctx.fail("C06/output-is-not-well-formed-json", || format!("schema {}: admitted output {:?} is not JSON: {}", stxt, text, e));
                }
            };
            ctx.nontrivial(Fnv::new().u64(sh).str(&text).finish());
            match judge(&case.schema, &sec, &j, ctx) {
                Ok(true) => {}
                Ok(false) => {
                    let why = why_invalid(&case.schema, &j);
                    let key = format_limit_key(&case.schema, &sec, &text, ctx).map(|s| s.to_string()).unwrap_or_else(|| classify(&why));
                    ctx.fail(&key, || format!("schema {}: the engine admits {:?} as a complete output but it does not validate: {}", stxt, text, why))?;
                }
                Err(_) => ctx.class("no_verdict"),
            }
        }
        Ok(())
    }
}

/// Known upstream format limitations have precise signatures: the output becomes valid when
/// the offending component alone is normalised.
fn format_limit_key(schema: &Value, sec: &Second, text: &str, ctx: &mut Ctx) -> Option<&'static str> {
    let try_valid = |t: &str, ctx: &mut Ctx| -> bool {
        match parse_json(t.as_bytes()) {
            Ok(j) => matches!(judge(schema, sec, &j, ctx), Ok(true)),
            Err(_) => false,
        }
    };
    if text.contains(":60") && try_valid(&text.replace(":60", ":59"), ctx) {
        return Some("C06/format-leap-second-at-any-time");
    }
    // length limits of mail addresses / host names (local part <= 64, label <= 63, name <= 253):
    // shorten every over-long run of label characters and every over-long local part
    let long_run = regex::Regex::new(r"[A-Za-z0-9!#$%&'*+/=?^_`{|}~-]{40,}").unwrap();
    if long_run.is_match(text) {
        let t2 = long_run.replace_all(text, "ab").to_string();
        if try_valid(&t2, ctx) {
            return Some("C06/format-email-hostname-length-limits");
        }
    }
    // day of month: YYYY-MM-DD with DD in 29..31 -> 01
    let re = regex::Regex::new(r"(\d{4}-\d{2}-)(29|30|31)").unwrap();
    if re.is_match(text) {
        let t2 = re.replace_all(text, "${1}01").to_string();
        if try_valid(&t2, ctx) {
            return Some("C06/format-date-day-not-in-month");
        }
        if t2.contains(":60") && try_valid(&t2.replace(":60", ":59"), ctx) {
            return Some("C06/format-date-day-not-in-month+leap-second");
        }
    }
    None
}

/// the first key of a top-level object re-spelt with a \uXXXX escape, with alternative values
fn respell_with_values(j: &J) -> Vec<String> {
    let mut out = vec![];
    if let J::Obj(members) = j {
        if let Some((k, v)) = members.first() {
            if let Some(c) = k.chars().next() {
                // a control character has a short escape and a \u00XX escape, both plain JSON
                if c.is_ascii_alphanumeric() || c == '\n' || c == '\t' {
                    let esc_key = format!("\"\\u{:04x}{}\"", c as u32, &serde_json::to_string(&k[1..]).unwrap().trim_matches('"'));
                    let rest: Vec<String> = members[1..].iter().map(|(k2, v2)| format!("{}:{}", serde_json::to_string(k2).unwrap(), v2.to_compact())).collect();
                    for alt in [v.to_compact(), "\"x\"".to_string(), "0".to_string(), "null".to_string(), "true".to_string(), "[]".to_string(), "{}".to_string(), "1.5".to_string()] {
                        let mut parts = vec![format!("{}:{}", esc_key, alt)];
                        parts.extend(rest.clone());
                        out.push(format!("{{{}}}", parts.join(",")));
                    }
                }
            }
        }
    }
    out
}

/// failure key by the keyword that is violated
fn classify(why: &str) -> String {
    let kw = why.split(|c: char| !(c.is_alphanumeric() || c == ':' || c == '-')).find(|s| !s.is_empty()).unwrap_or("other");
    let kw = if why.contains("duplicate declared key") {
        "duplicate-declared-key"
    } else if let Some(i) = why.find("format:") {
        &why[i..].split(|c: char| c == ' ' || c == ',').next().unwrap_or("format")
    } else if why.starts_with("additionalProperties[") {
        "additionalProperties"
    } else {
        kw
    };
    format!("C06/admitted-output-violates-{}", kw)
}

// ------------------------------------------------------------------------------------------
// C07
// ------------------------------------------------------------------------------------------

#[derive(Clone, Debug, Serialize, Deserialize)]
pub struct Case07 {
    pub schema: Value,
    pub vocab: VocabSpec,
    pub tapes: Vec<Vec<u16>>,
    pub seg: Vec<u16>,
}

pub struct C07;

/// whitespace / separator choices permitted by the schema's x-guidance options
struct WsOpts {
    ws: Vec<&'static str>,
    item_sep: Vec<&'static str>,
    key_sep: Vec<&'static str>,
}

fn ws_opts(schema: &Value) -> Option<WsOpts> {
    let xg = schema.get("x-guidance");
    let mut o = WsOpts { ws: vec!["", " ", "\n", "\t", "\r", "  ", " \n "], item_sep: vec![","], key_sep: vec![":"] };
    if let Some(x) = xg {
        if x.get("whitespace_flexible") == Some(&json!(false)) {
            o.ws = vec![""];
        }
        if let Some(p) = x.get("whitespace_pattern").and_then(|p| p.as_str()) {
            if p == "[ \\n]{0,2}" {
                o.ws = vec!["", " ", "\n", " \n", "  "];
            } else {
                return None;
            }
        }
        if let Some(p) = x.get("item_separator").and_then(|p| p.as_str()) {
            if p == ", ?" {
                o.item_sep = vec![",", ", "];
            } else {
                return None;
            }
        }
        if let Some(p) = x.get("key_separator").and_then(|p| p.as_str()) {
            if p == ": ?" {
                o.key_sep = vec![":", ": "];
            } else {
                return None;
            }
        }
    }
    Some(o)
}

fn serialise(j: &J, o: &WsOpts, tape: &mut Tape, spaced: bool, out: &mut String) {
    let w = |tape: &mut Tape| -> &str {
        if spaced {
            o.ws[tape.next(o.ws.len())]
        } else {
            ""
        }
    };
    match j {
        J::Arr(v) => {
            out.push('[');
            for (i, x) in v.iter().enumerate() {
                if i > 0 {
                    out.push_str(w(tape));
                    out.push_str(if spaced { o.item_sep[tape.next(o.item_sep.len())] } else { o.item_sep[0] });
                }
                out.push_str(w(tape));
                serialise(x, o, tape, spaced, out);
            }
            out.push_str(w(tape));
            out.push(']');
        }
        J::Obj(v) => {
            out.push('{');
            for (i, (k, x)) in v.iter().enumerate() {
                if i > 0 {
                    out.push_str(w(tape));
                    out.push_str(if spaced { o.item_sep[tape.next(o.item_sep.len())] } else { o.item_sep[0] });
                }
                out.push_str(w(tape));
                out.push_str(&serde_json::to_string(k).unwrap());
                out.push_str(w(tape));
                out.push_str(if spaced { o.key_sep[tape.next(o.key_sep.len())] } else { o.key_sep[0] });
                out.push_str(w(tape));
                serialise(x, o, tape, spaced, out);
            }
            out.push_str(w(tape));
            out.push('}');
        }
        other => out.push_str(&other.to_compact()),
    }
}

/// does the instance contain string characters that need an escape outside `allowed`
fn needs_disallowed_escape(j: &J, schema: &Value) -> bool {
    let allowed = schema.get("x-guidance").and_then(|x| x.get("json_allowed_escapes")).and_then(|x| x.as_str());
    let allowed = match allowed {
        Some(a) => a,
        None => return false,
    };
    fn chk(s: &str, allowed: &str) -> bool {
        s.chars().any(|c| match c {
            '"' => !allowed.contains('"'),
            '\\' => !allowed.contains('\\'),
            '\n' => !allowed.contains('n'),
            '\r' => !allowed.contains('r'),
            '\t' => !allowed.contains('t'),
            '\u{8}' => !allowed.contains('b'),
            '\u{c}' => !allowed.contains('f'),
            c if (c as u32) < 0x20 => !allowed.contains('u'),
            _ => false,
        })
    }
    match j {
        J::Str(s) => chk(s, allowed),
        J::Arr(v) => v.iter().any(|x| needs_disallowed_escape(x, schema)),
        J::Obj(v) => v.iter().any(|(k, x)| chk(k, allowed) || needs_disallowed_escape(x, schema)),
        _ => false,
    }
}

fn random_segmentation(vocab: &Vocab, bytes: &[u8], seeds: &[u16]) -> Vec<u32> {
    let trie = vocab.trie();
    let mut out = vec![];
    let mut i = 0;
    let mut k = 0usize;
    while i < bytes.len() {
        let mut cands: Vec<(u32, usize)> = vec![];
        let mut node = trie.root();
        for j in i..bytes.len() {
            match trie.child_at_byte(node, bytes[j]) {
                Some(c) => {
                    node = c;
                    if let Some(t) = c.token_id() {
                        if vocab.is_regular(t) {
                            cands.push((t, j + 1 - i));
                        }
                    }
                }
                None => break,
            }
        }
        if cands.is_empty() {
            return vec![];
        }
        let s = seeds[k % seeds.len().max(1)].wrapping_add((k as u16).wrapping_mul(7919));
        let (t, l) = cands[frac(s, cands.len())];
        out.push(t);
        i += l;
        k += 1;
    }
    out
}

impl Prop for C07 {
    type Case = Case07;
    const ID: &'static str = "C07";
    fn rule(&self) -> String {
        "case = (JSON schema from the `full` profile generator - type, enum, const, anyOf, $ref incl. recursive, items, prefixItems, min/maxItems, \
         properties, required, additionalProperties, min/maxLength, numeric bounds, integer multipleOf, x-guidance whitespace/separator options \
         - with instance tapes); instances are generated from the schema by recursive descent, kept only if the reference validator and the \
         jsonschema crate both call them valid, serialised compactly the serde_json way with keys in schema order (properties, then required, \
         then additional keys), also with whitespace the schema's options permit, tokenised as bytes / greedily / by random segmentation over \
         the vocabulary, and fed to the engine: every token must be in the mask at its step, the final state must be accepting and \
         validate_tokens(tokens+EOS) must accept everything. evaluation = one (instance, serialisation, tokenisation) fed; non-trivial = instance \
         that is a container with >= 2 members or a string/number at a bound; distinct by hash(schema, instance text)"
            .into()
    }
    fn assumptions(&self) -> Vec<String> {
        vec![
            "numbers are restricted to magnitudes serde_json prints as plain decimals".into(),
            "instances containing characters whose escape the schema's json_allowed_escapes option forbids are skipped".into(),
        ]
    }
    fn cases(&self, tier: Tier) -> u32 {
        tier.pick(1500, 15000)
    }
    fn strategy(&self, tier: Tier) -> BoxedStrategy<Case07> {
        let bpe_n = tier.pick(512usize, 2048usize);
        schema_strategy(Profile::Full)
            .prop_flat_map(move |schema| {
                let g = GrammarSpec::Json(schema.clone());
                (
                    Just(schema),
                    prop_oneof![1 => Just(VocabSpec::byte()), 3 => syn_vocab_strategy(g, false), 1 => Just(VocabSpec::bpe(bpe_n, false))],
                    proptest::collection::vec(proptest::collection::vec(any::<u16>(), 8..60), 3..8),
                    proptest::collection::vec(any::<u16>(), 3..10),
                )
            })
            .prop_map(|(schema, vocab, tapes, seg)| Case07 { schema, vocab, tapes, seg })
            .boxed()
    }

    fn run(&self, case: &Case07, ctx: &mut Ctx) -> R {
        let vocab = match case.vocab.build() {
            Ok(v) => v,
            Err(_) => return Ok(()),
        };
        let n = vocab.len();
        let f = factory_tight(&vocab);
        let g = GrammarSpec::Json(case.schema.clone());
        let m0 = matcher(&f, &g);
        let stxt = truncate_str(&case.schema.to_string(), 700);
        let wo = match ws_opts(&case.schema) {
            Some(o) => o,
            None => return Ok(()),
        };
        let sh = Fnv::new().str(&case.schema.to_string()).finish();
        let mut compile_err: Option<String> = m0.get_error();
        if let Some(e) = &compile_err {
            if is_limit_error(e) {
                return Ok(());
            }
            compile_err = Some(short_err(e));
        }
        let sec = Second::new(&case.schema);
        for (ti, tp) in case.tapes.iter().enumerate() {
            let mut tape = Tape::new(tp);
            let inst = match gen_instance(&case.schema, &case.schema, &mut tape, 0) {
                Some(j) => j,
                None => {
                    ctx.class("no_instance_generated");
                    continue;
                }
            };
            // both validators must agree that it is valid
            let own = validate(&case.schema, &inst);
            let second = sec.valid(&inst);
            if own != Verdict::Valid || second == Some(false) {
                ctx.class(if own == Verdict::Valid { "oracle_disagreement" } else { "generated_instance_not_valid(skipped)" });
                continue;
            }
            if needs_disallowed_escape(&inst, &case.schema) {
                ctx.class("needs_disallowed_escape(skipped)");
                continue;
            }
            // a schema in the fully supported subset that has a valid instance must compile
            if let Some(e) = &compile_err {
                // known finding: an unsatisfiable definition reached through $ref fails the whole
                // schema instead of just dropping the alternative that uses it
                let key = if e.contains("Unsatisfiable schema") { "C07/unsatisfiable-ref-branch-rejects-whole-schema" } else { "C07/schema-with-valid-instance-rejected" };
                return ctx.fail(key, || format!("schema {} has the valid instance {} but does not compile: {}", stxt, inst.to_compact(), e));
            }
            for spaced in [false, true] {
                let mut text = String::new();
                serialise(&inst, &wo, &mut tape, spaced, &mut text);
                let bytes = text.as_bytes();
                if bytes.contains(&0xFF) {
                    continue;
                }
                let tokenisations: Vec<(&str, Vec<u32>)> = vec![
                    ("bytes", bytes.iter().map(|b| vocab.trie().token_id(&[*b]).unwrap()).collect()),
                    ("greedy", vocab.trie().greedy_tokenize(bytes)),
                    ("random", random_segmentation(&vocab, bytes, &case.seg)),
                ];
                for (tname, toks) in tokenisations {
                    if toks.is_empty() && !bytes.is_empty() {
                        continue;
                    }
                    if vocab.decode(&toks) != bytes {
                        continue;
                    }
                    if ti % 2 == 1 && tname == "bytes" && spaced {
                        // keep the cost down: not every combination for every tape
                        continue;
                    }
                    ctx.eval(1);
                    ctx.class(if spaced { "fed:with_whitespace" } else { "fed:compact" });
                    let nontrivial = match &inst {
                        J::Arr(v) => v.len() >= 2,
                        J::Obj(v) => v.len() >= 2,
                        J::Str(_) | J::Num(_) => case.schema.to_string().contains("m"),
                        _ => false,
                    };
                    if nontrivial {
                        ctx.nontrivial(Fnv::new().u64(sh).str(&text).finish());
                    }
                    let mut m = m0.clone();
                    for (i, &t) in toks.iter().enumerate() {
                        let mask = match m.compute_mask() {
                            Ok(x) => x,
                            Err(e) => {
                                if is_limit_error(&e.to_string()) {
                                    return Ok(());
                                }
                                return ctx.fail(&format!("C07/valid-instance-rejected{}", if spaced { "-with-whitespace" } else { "" }), || {
                                    format!("schema {}: valid instance {:?} ({} tokens): mask fails before token #{}: {}", stxt, text, tname, i, short_err(&e.to_string()))
                                });
                            }
                        };
                        if !mask.is_allowed(t) {
                            let done: Vec<u8> = vocab.decode(&toks[..i]);
                            let key = if vocab.bytes(t).contains(&0x7F) {
                                "C07/raw-DEL-in-string-rejected".to_string()
                            } else {
                                format!("C07/valid-instance-rejected{}", if spaced { "-with-whitespace" } else { "" })
                            };
                            return ctx.fail(&key, || {
                                format!("schema {}: valid instance {:?} ({} tokenisation): after {:?} the token {:?} is not in the mask", stxt, text, tname, esc(&done), esc(vocab.bytes(t)))
                            });
                        }
                        if let Err(e) = m.consume_token(t) {
                            if is_limit_error(&e.to_string()) {
                                return Ok(());
                            }
                            return ctx.fail("C07/mask-token-fails-to-commit", || format!("schema {}: instance {:?}: {}", stxt, text, short_err(&e.to_string())));
                        }
                    }
                    let fin = if m.is_stopped() { matches!(m.stop_reason(), StopReason::NoExtension) } else { m.is_accepting().unwrap_or(false) };
                    if !fin {
                        return ctx.fail(&format!("C07/valid-instance-not-accepting{}", if spaced { "-with-whitespace" } else { "" }), || {
                            format!("schema {}: valid instance {:?} ({} tokenisation) was consumed but the final state is not accepting", stxt, text, tname)
                        });
                    }
                    let mut tv = toks.clone();
                    tv.push(vocab.eos[0]);
                    let k = m0.clone().validate_tokens(&tv).unwrap_or(0);
                    if k != tv.len() {
                        return ctx.fail("C07/validate-rejects-valid-instance", || format!("schema {}: instance {:?}: validate_tokens(tokens+EOS)={} of {}", stxt, text, k, tv.len()));
                    }
                }
            }
        }
        let _ = n;
        Ok(())
    }
}
