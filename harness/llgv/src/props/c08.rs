//! C08 — numeric bound keywords admit exactly the numbers inside the bounds.
//!
//! All arithmetic of the oracle is exact integer arithmetic on values scaled by 10^6
//! (bounds carry at most 3 fractional digits, literals at most 6).

use crate::engine::{factory, is_limit_error, matcher, short_err, GrammarSpec};
use crate::runner::{par_chunks, Ctx, Failure, Prop, Stats, Tier, R};
use crate::util::Fnv;
use crate::walk::byte_vocab;
use proptest::prelude::*;
use serde::{Deserialize, Serialize};
use std::collections::BTreeSet;

/// a bound: value scaled by 10^3, exclusive?
pub type Bd = Option<(i64, bool)>;

#[derive(Clone, Debug, Serialize, Deserialize, PartialEq, Eq, Hash)]
pub struct Case {
    pub integer: bool,
    pub lo: Bd,
    pub hi: Bd,
    /// multipleOf scaled by 10^3
    pub mult: Option<i64>,
    /// a second lower bound written with the *other* keyword (minimum vs exclusiveMinimum)
    #[serde(default)]
    pub lo2: Option<i64>,
    /// a second upper bound written with the other keyword
    #[serde(default)]
    pub hi2: Option<i64>,
    /// every bound (not multipleOf) is multiplied by 10^big: magnitudes up to and beyond 2^63
    #[serde(default)]
    pub big: u8,
}

pub struct C08;

const S3: i128 = 1_000; // bound scale
const S6: i128 = 1_000_000; // literal scale

/// shortest decimal text of v / 10^scale_digits
pub fn dec_text(v: i128, scale_digits: u32) -> String {
    let neg = v < 0;
    let a = v.unsigned_abs();
    let p = 10u128.pow(scale_digits);
    let ip = a / p;
    let mut fp = format!("{:0width$}", a % p, width = scale_digits as usize);
    while fp.ends_with('0') {
        fp.pop();
    }
    let mut s = String::new();
    if neg {
        s.push('-');
    }
    s.push_str(&ip.to_string());
    if !fp.is_empty() {
        s.push('.');
        s.push_str(&fp);
    }
    s
}

fn bound_text(v: i128) -> String {
    dec_text(v, 3)
}

/// 10^big
fn sc(c: &Case) -> i128 {
    10i128.pow(c.big as u32)
}

/// |bound| >= 2^63 for some bound: the engine converts integer bounds to i64
fn beyond_i64(c: &Case) -> bool {
    lows(c).iter().chain(highs(c).iter()).any(|(v, _)| v.unsigned_abs() / 1000 >= 1u128 << 63)
}

/// does the schema text survive the trip through f64 (the engine reads bounds as f64)
fn roundtrips(txt: &str) -> bool {
    match txt.parse::<f64>() {
        Ok(f) => {
            let back = format!("{}", f);
            back == txt || back == format!("{}.0", txt) || (txt.contains('.') && back == txt)
        }
        Err(_) => false,
    }
}

pub fn schema(c: &Case) -> Option<serde_json::Value> {
    let mut parts = vec![format!("\"type\":\"{}\"", if c.integer { "integer" } else { "number" })];
    if let Some((v, ex)) = c.lo {
        let t = bound_text(v as i128 * sc(c));
        if !roundtrips(&t) {
            return None;
        }
        parts.push(format!("\"{}\":{}", if ex { "exclusiveMinimum" } else { "minimum" }, t));
    }
    if let Some((v, ex)) = c.hi {
        let t = bound_text(v as i128 * sc(c));
        if !roundtrips(&t) {
            return None;
        }
        parts.push(format!("\"{}\":{}", if ex { "exclusiveMaximum" } else { "maximum" }, t));
    }
    if let (Some((_, ex)), Some(v2)) = (c.lo, c.lo2) {
        let t = bound_text(v2 as i128 * sc(c));
        if !roundtrips(&t) {
            return None;
        }
        parts.push(format!("\"{}\":{}", if ex { "minimum" } else { "exclusiveMinimum" }, t));
    }
    if let (Some((_, ex)), Some(v2)) = (c.hi, c.hi2) {
        let t = bound_text(v2 as i128 * sc(c));
        if !roundtrips(&t) {
            return None;
        }
        parts.push(format!("\"{}\":{}", if ex { "maximum" } else { "exclusiveMaximum" }, t));
    }
    if let Some(m) = c.mult {
        let t = bound_text(m as i128);
        if !roundtrips(&t) || m <= 0 {
            return None;
        }
        parts.push(format!("\"multipleOf\":{}", t));
    }
    serde_json::from_str(&format!("{{{}}}", parts.join(","))).ok()
}

/// all lower / upper bounds of the case as (value scaled 10^3, exclusive)
fn lows(c: &Case) -> Vec<(i128, bool)> {
    let mut v = vec![];
    if let Some((l, ex)) = c.lo {
        v.push((l as i128 * sc(c), ex));
        if let Some(l2) = c.lo2 {
            v.push((l2 as i128 * sc(c), !ex));
        }
    }
    v
}
fn highs(c: &Case) -> Vec<(i128, bool)> {
    let mut v = vec![];
    if let Some((h, ex)) = c.hi {
        v.push((h as i128 * sc(c), ex));
        if let Some(h2) = c.hi2 {
            v.push((h2 as i128 * sc(c), !ex));
        }
    }
    v
}

/// reference: is the value (scaled 10^6) admitted
pub fn admits(c: &Case, v6: i128) -> bool {
    for (lo, ex) in lows(c) {
        let l = lo * S3;
        if v6 < l || (ex && v6 == l) {
            return false;
        }
    }
    for (hi, ex) in highs(c) {
        let h = hi * S3;
        if v6 > h || (ex && v6 == h) {
            return false;
        }
    }
    admits_rest(c, v6)
}

fn admits_rest(c: &Case, v6: i128) -> bool {
    if let Some(m) = c.mult {
        if v6 % (m as i128 * S3) != 0 {
            return false;
        }
    }
    if c.integer && v6 % S6 != 0 {
        return false;
    }
    true
}

/// reference: does any value satisfy the schema
pub fn satisfiable(c: &Case) -> bool {
    // step (scaled 10^6): lcm of multipleOf and (1 for integer schemas)
    let mut step: i128 = 1; // any value with <= 6 fractional digits; bounds have <= 3, so a witness at 10^-6 resolution exists iff one exists at all
    if let Some(m) = c.mult {
        step = m as i128 * S3;
    }
    if c.integer {
        let g = gcd(step, S6);
        step = step / g * S6;
    }
    let lo = lows(c).iter().map(|(v, ex)| *v * S3 + if *ex { 1 } else { 0 }).max();
    let hi = highs(c).iter().map(|(v, ex)| *v * S3 - if *ex { 1 } else { 0 }).min();
    match (lo, hi) {
        (Some(l), Some(h)) => {
            if l > h {
                return false;
            }
            // smallest multiple of step >= l
            let first = l.div_euclid(step) * step + if l.rem_euclid(step) == 0 { 0 } else { step };
            first <= h
        }
        _ => true,
    }
}

fn gcd(a: i128, b: i128) -> i128 {
    if b == 0 {
        a.abs()
    } else {
        gcd(b, a % b)
    }
}

/// literal spellings of a value (scaled 10^6): canonical, and with 1-2 trailing zeros
fn spellings(v6: i128) -> Vec<(String, bool)> {
    let canon = dec_text(v6, 6);
    if canon == "-0" || (v6 == 0 && canon.starts_with('-')) {
        return vec![];
    }
    let mut out = vec![(canon.clone(), true)];
    if canon.contains('.') {
        out.push((format!("{}0", canon), false));
        out.push((format!("{}00", canon), false));
        out.push((format!("{}000", canon), false));
    } else {
        out.push((format!("{}.0", canon), false));
        out.push((format!("{}.00", canon), false));
        out.push((format!("{}.000", canon), false));
    }
    out
}

/// candidate values (scaled 10^6) in and around the interval
pub fn candidates(c: &Case) -> Vec<i128> {
    let mut s: BTreeSet<i128> = BTreeSet::new();
    let lo6 = c.lo.map(|(v, _)| v as i128 * S3 * sc(c));
    let hi6 = c.hi.map(|(v, _)| v as i128 * S3 * sc(c));
    let around = |b: i128, s: &mut BTreeSet<i128>| {
        s.insert(b);
        for k in 0..=6u32 {
            let d = 10i128.pow(k);
            s.insert(b - d);
            s.insert(b + d);
        }
        // neighbouring integers
        let fl = b.div_euclid(S6) * S6;
        for i in -15..=15 {
            s.insert(fl + i * S6);
        }
        // digit-count neighbours
        s.insert(b * 10);
        s.insert(b / 10 / S3 * S3);
    };
    if let Some(l) = lo6 {
        around(l, &mut s);
    }
    if let Some(h) = hi6 {
        around(h, &mut s);
    }
    for x in [c.lo2, c.hi2].into_iter().flatten() {
        around(x as i128 * S3 * sc(c), &mut s);
    }
    if c.big > 0 {
        // where a conversion of the bounds to i64 / u64 / f64-exact integers would saturate or round
        for b in [1i128 << 63, 1i128 << 64, 1i128 << 53] {
            for d in [-1i128, 0, 1] {
                s.insert((b + d) * S6);
                s.insert(-(b + d) * S6);
            }
            s.insert(b * S6 + 500_000);
        }
    }
    if let (Some(l), Some(h)) = (lo6, hi6) {
        let span = h - l;
        if span >= 0 && span <= 400 * S6 {
            // every integer inside a small window
            let mut i = l.div_euclid(S6);
            while i * S6 <= h {
                s.insert(i * S6);
                i += 1;
            }
        } else if span > 0 {
            for k in 1..20 {
                s.insert((l + span * k / 20).div_euclid(S6) * S6);
                s.insert(l + span * k / 20);
            }
        }
        s.insert((l + h) / 2);
    }
    if lo6.is_none() && hi6.is_none() {
        for i in -20..=20 {
            s.insert(i * S6);
            s.insert(i * S6 / 4);
        }
        s.insert(123_456_789 * S6);
        s.insert(-987_654 * S6 - 321_000);
    }
    for v in [0, S6, -S6, 10 * S6, -10 * S6, S6 / 2, -S6 / 2, S6 / 10, 250_000, 200_000, 990_000, 9_900_000, 9_990_000] {
        s.insert(v);
    }
    if let (Some(m), Some(l), Some(h)) = (c.mult, lo6, hi6) {
        // a fractional multipleOf over a narrow window: every tenth and every hundredth inside it
        if m % 1000 != 0 && h >= l && h - l <= 3 * S6 {
            for step in [S6 / 10, S6 / 100] {
                let mut x = l.div_euclid(step) * step;
                while x <= h + step {
                    s.insert(x);
                    x += step;
                }
            }
        }
    }
    if let Some(m) = c.mult {
        let st = m as i128 * S3;
        let base = lo6.or(hi6).unwrap_or(0);
        let k0 = base.div_euclid(st);
        for k in -6..=6 {
            s.insert((k0 + k) * st);
            s.insert((k0 + k) * st + 1000);
        }
    }
    s.into_iter().collect()
}

pub fn run_case(c: &Case, ctx: &mut Ctx) -> R {
    let sch = match schema(c) {
        Some(s) => s,
        None => {
            ctx.class("skipped:bound_does_not_roundtrip_f64");
            return Ok(());
        }
    };
    // a bound of magnitude >= 2^63 gets its own signatures (the engine keeps integer bounds in i64)
    let beyond = beyond_i64(c);
    // ... and so does a bound with 19 digits (10^18 <= |b| < 2^63): the integer-range regex builder computes 10^19-1 in i64
    let d19 = !beyond && lows(c).iter().chain(highs(c).iter()).any(|(v, _)| v.unsigned_abs() / 1000 >= 1_000_000_000_000_000_000);
    let k = |key: &str| -> String {
        if beyond {
            format!("{}@bound-beyond-i64", key)
        } else if d19 {
            format!("{}@19-digit-bound", key)
        } else {
            key.to_string()
        }
    };
    let v = byte_vocab();
    let f = factory(&v);
    let g = GrammarSpec::Json(sch.clone());
    let m0 = matcher(&f, &g);
    let sat = satisfiable(c);
    ctx.eval(1);
    if let Some(e) = m0.get_error() {
        if is_limit_error(&e) {
            ctx.class("engine_limit");
            return Ok(());
        }
        if sat {
            return ctx.fail(&k("C08/satisfiable-schema-rejected"), || format!("schema {} has satisfying values but does not compile: {}", sch, short_err(&e)));
        }
        ctx.class("unsatisfiable_rejected");
        return Ok(());
    }
    if !sat {
        return ctx.fail(&k("C08/unsatisfiable-schema-compiles"), || format!("schema {} has no satisfying value but compiles", sch));
    }
    ctx.class(if c.integer { "integer_schema" } else { "number_schema" });
    let eos = v.eos[0];
    let multi_branch = match (c.lo, c.hi) {
        (Some((l, _)), Some((h, _))) => {
            l % 1000 != 0 || h % 1000 != 0 || (l < 0) != (h < 0) || l.abs().to_string().len() != h.abs().to_string().len()
        }
        (Some((l, _)), None) | (None, Some((l, _))) => l % 1000 != 0,
        _ => false,
    };
    if multi_branch || c.mult.is_some() {
        ctx.nontrivial(Fnv::new().str(&sch.to_string()).finish());
    }
    for v6 in candidates(c) {
        let inside = admits(c, v6);
        // all spellings of this value: canonical, then 1..3 extra trailing zeros
        let mut sp: Vec<(String, bool)> = vec![];
        for (txt, _canonical) in spellings(v6) {
            let has_frac = txt.contains('.');
            if c.integer && has_frac && v6 % S6 == 0 {
                // integral value written with a fraction part: the statement can be read either way
                ctx.class("ambiguous_integral_fraction(skipped)");
                continue;
            }
            let mut toks: Vec<u32> = txt.bytes().map(|b| b as u32).collect();
            toks.push(eos);
            let n = match m0.clone().validate_tokens(&toks) {
                Ok(n) => n,
                Err(e) => return ctx.fail(&k("C08/validate-error"), || format!("schema {}: {}", sch, short_err(&e.to_string()))),
            };
            ctx.eval(1);
            sp.push((txt, n == toks.len()));
        }
        if !inside {
            if let Some((txt, _)) = sp.iter().find(|(_, a)| *a) {
                ctx.fail(&k("C08/literal-outside-bounds-accepted"), || format!("schema {}: literal {} is accepted but its value violates the bounds", sch, txt))?;
            }
            continue;
        }
        if sp.iter().all(|(_, a)| !*a) {
            if let Some((txt, _)) = sp.first() {
                let dec_mult = c.mult.is_some_and(|m| m % 1000 != 0);
                let key = if dec_mult { "C08/decimal-multipleOf-value-rejected-in-every-spelling" } else { "C08/value-inside-bounds-rejected-in-every-spelling" };
                ctx.fail(&k(key), || {
                    format!("schema {}: value {} satisfies the bounds but is rejected in every spelling tried ({:?})", sch, txt, sp.iter().map(|x| x.0.as_str()).collect::<Vec<_>>())
                })?;
            }
            continue;
        }
        for (i, (txt, acc)) in sp.iter().enumerate() {
            if *acc {
                continue;
            }
            // spellings are ordered by length: is a longer spelling of the same value accepted?
            let longer_ok = sp[i + 1..].iter().any(|(_, a)| *a);
            // decimal multipleOf (e.g. 0.25) is compiled to a regex with a fixed fraction width
            let dec_mult = c.mult.is_some_and(|m| m % 1000 != 0);
            let key = match (longer_ok, dec_mult) {
                (true, true) => "C08/decimal-multipleOf-short-fraction-rejected",
                (true, false) => "C08/short-fraction-spelling-rejected",
                (false, _) => "C08/trailing-zero-literal-rejected",
            };
            ctx.fail(&k(key), || {
                format!("schema {}: literal {} is rejected although its value satisfies the bounds (accepted spellings of the same value: {:?})", sch, txt, sp.iter().filter(|x| x.1).map(|x| x.0.as_str()).collect::<Vec<_>>())
            })?;
        }
    }
    Ok(())
}

/// exhaustive integer window + structured decimal sets
pub fn grid(tier: Tier) -> Vec<Case> {
    let mut v = vec![];
    let w: i64 = tier.pick(120, 400);
    // (1) all integer pairs in the window; inclusive/exclusive pattern rotates with (lo+hi)
    for lo in -w..=w {
        for hi in lo..=w {
            let pat = (lo + 2 * hi).rem_euclid(4);
            v.push(Case { integer: true, lo: Some((lo * 1000, pat & 1 == 1)), hi: Some((hi * 1000, pat & 2 == 2)), mult: None, lo2: None, hi2: None, big: 0 });
        }
    }
    // (2) half-open and unbounded, integer and number
    for b in -w..=w {
        for ex in [false, true] {
            v.push(Case { integer: true, lo: Some((b * 1000, ex)), hi: None, mult: None, lo2: None, hi2: None, big: 0 });
            v.push(Case { integer: true, lo: None, hi: Some((b * 1000, ex)), mult: None, lo2: None, hi2: None, big: 0 });
            v.push(Case { integer: false, lo: Some((b * 1000, ex)), hi: None, mult: None, lo2: None, hi2: None, big: 0 });
            v.push(Case { integer: false, lo: None, hi: Some((b * 1000, ex)), mult: None, lo2: None, hi2: None, big: 0 });
        }
    }
    v.push(Case { integer: true, lo: None, hi: None, mult: None, lo2: None, hi2: None, big: 0 });
    v.push(Case { integer: false, lo: None, hi: None, mult: None, lo2: None, hi2: None, big: 0 });
    // (3) structured decimal bounds (scaled 10^3)
    let mut dec: Vec<i64> = vec![
        0, 1, 10, 100, 250, 500, 990, 999, 1000, 1001, 1010, 1100, 1250, 1500, 1990, 1999, 2000, 9000, 9900, 9990, 9999, 10000, 10001, 10010, 12340, 12345,
        12500, 99000, 99900, 99990, 99999, 100000, 100001, 123456, 999999, 1000000, 1000001,
    ];
    let neg: Vec<i64> = dec.iter().map(|x| -x).collect();
    dec.extend(neg);
    dec.sort();
    dec.dedup();
    for (i, &lo) in dec.iter().enumerate() {
        for &hi in &dec[i..] {
            let pat = (lo / 10 + hi).rem_euclid(4);
            v.push(Case { integer: false, lo: Some((lo, pat & 1 == 1)), hi: Some((hi, pat & 2 == 2)), mult: None, lo2: None, hi2: None, big: 0 });
            if (lo + hi) % 3 == 0 {
                // integer schema with fractional bounds
                v.push(Case { integer: true, lo: Some((lo, pat & 2 == 2)), hi: Some((hi, pat & 1 == 1)), mult: None, lo2: None, hi2: None, big: 0 });
            }
        }
        for ex in [false, true] {
            v.push(Case { integer: false, lo: Some((lo, ex)), hi: None, mult: None, lo2: None, hi2: None, big: 0 });
            v.push(Case { integer: false, lo: None, hi: Some((lo, ex)), mult: None, lo2: None, hi2: None, big: 0 });
            v.push(Case { integer: true, lo: Some((lo, ex)), hi: None, mult: None, lo2: None, hi2: None, big: 0 });
        }
    }
    // (4) large magnitudes near powers of ten (integers only, below 2^53)
    for e in 3..=15u32 {
        let p = 10i64.pow(e);
        for d in [-1i64, 0, 1] {
            let b = p + d;
            if b.checked_mul(1000).is_none() {
                continue;
            }
            for ex in [false, true] {
                v.push(Case { integer: true, lo: Some((b * 1000, ex)), hi: None, mult: None, lo2: None, hi2: None, big: 0 });
                v.push(Case { integer: true, lo: None, hi: Some((b * 1000, ex)), mult: None, lo2: None, hi2: None, big: 0 });
                v.push(Case { integer: true, lo: Some((-b * 1000, ex)), hi: Some((b * 1000, !ex)), mult: None, lo2: None, hi2: None, big: 0 });
                v.push(Case { integer: false, lo: Some(((b - 7) * 1000, ex)), hi: Some((b * 1000, ex)), mult: None, lo2: None, hi2: None, big: 0 });
                v.push(Case { integer: true, lo: Some(((p / 10 - 1) * 1000, ex)), hi: Some((b * 1000, ex)), mult: None, lo2: None, hi2: None, big: 0 });
            }
        }
    }
    // (7) magnitudes up to and beyond 2^63: m * 10^big for big in 12..=22 (all exactly representable in f64)
    for big in [12u8, 15, 16, 17, 18, 19, 20, 22] {
        for m in [1i64, 2, 5, 9] {
            for ex in [false, true] {
                for integer in [true, false] {
                    v.push(Case { integer, lo: Some((m * 1000, ex)), hi: None, mult: None, lo2: None, hi2: None, big });
                    v.push(Case { integer, lo: None, hi: Some((m * 1000, ex)), mult: None, lo2: None, hi2: None, big });
                    v.push(Case { integer, lo: Some((-m * 1000, ex)), hi: None, mult: None, lo2: None, hi2: None, big });
                    v.push(Case { integer, lo: None, hi: Some((-m * 1000, ex)), mult: None, lo2: None, hi2: None, big });
                    v.push(Case { integer, lo: Some((-m * 1000, ex)), hi: Some((m * 1000, !ex)), mult: None, lo2: None, hi2: None, big });
                    v.push(Case { integer, lo: Some((m * 1000, ex)), hi: Some((m * 10000, ex)), mult: None, lo2: None, hi2: None, big });
                    v.push(Case { integer, lo: Some((-m * 10000, ex)), hi: Some((-m * 1000, ex)), mult: None, lo2: None, hi2: None, big });
                }
            }
        }
    }
    // (8) both bounds inside one integer part, fractions with up to three digits: every upper bound in thousandths
    //     against lower bounds on a coarser raster, positive and mirrored negative (digit-wise comparison of fraction tails)
    let lo_step: i64 = tier.pick(50, 10);
    for base in [0i64, 1000, 12000] {
        let mut lo = base;
        while lo <= base + 400 {
            for hi in lo..=base + 420 {
                let pat = (lo / lo_step + hi).rem_euclid(4);
                v.push(Case { integer: false, lo: Some((lo, pat & 1 == 1)), hi: Some((hi, pat & 2 == 2)), mult: None, lo2: None, hi2: None, big: 0 });
                if hi % 7 == 0 {
                    v.push(Case { integer: false, lo: Some((-hi, pat & 2 == 2)), hi: Some((-lo, pat & 1 == 1)), mult: None, lo2: None, hi2: None, big: 0 });
                }
            }
            lo += lo_step;
        }
    }
    // (9) decimal multipleOf against decimal windows that hold exactly one / no multiple (the satisfiability test must not
    //     be done in binary floating point), and integer schemas with a fractional multipleOf
    for &m in &[100i64, 10, 250, 500, 1250, 1500, 2500] {
        let mut lo = -600i64;
        while lo <= 1600 {
            for span in [0i64, 20, 50, 100, 150, 300] {
                let pat = (lo / 50 + span / 10).rem_euclid(4);
                v.push(Case { integer: false, lo: Some((lo, pat & 1 == 1)), hi: Some((lo + span, pat & 2 == 2)), mult: Some(m), lo2: None, hi2: None, big: 0 });
            }
            lo += 50;
        }
        for a in -12i64..=12 {
            for span in 0i64..=6 {
                let pat = (a + span).rem_euclid(4);
                v.push(Case { integer: true, lo: Some((a * 1000, pat & 1 == 1)), hi: Some(((a + span) * 1000, pat & 2 == 2)), mult: Some(m), lo2: None, hi2: None, big: 0 });
            }
        }
    }
    // (10) multipleOf with three fraction digits (0.125, 0.025, 0.004 ...): literals written with one or two fraction
    //      digits need their own divisor (coef / gcd(coef, 10^(3-k)))
    for &m in &[125i64, 25, 75, 4, 12, 8, 375, 1, 5, 2] {
        for lo in [-2000i64, -1000, -500, -130, 0, 40, 500, 1000, 7000] {
            for span in [100i64, 500, 1000, 2500] {
                let pat = (lo / 10 + span / 100 + m).rem_euclid(4);
                v.push(Case { integer: false, lo: Some((lo, pat & 1 == 1)), hi: Some((lo + span, pat & 2 == 2)), mult: Some(m), lo2: None, hi2: None, big: 0 });
            }
        }
        v.push(Case { integer: false, lo: None, hi: None, mult: Some(m), lo2: None, hi2: None, big: 0 });
        v.push(Case { integer: false, lo: Some((-450, false)), hi: None, mult: Some(m), lo2: None, hi2: None, big: 0 });
    }
    // (6) both keywords on one side (minimum + exclusiveMinimum, maximum + exclusiveMaximum): equal, and off by one either way
    let wb: i64 = tier.pick(30, 120);
    for b in -wb..=wb {
        for d in [-1000i64, -250, 0, 250, 1000] {
            for ex in [false, true] {
                for integer in [false, true] {
                    v.push(Case { integer, lo: Some(((b - 7) * 1000, false)), hi: Some((b * 1000, ex)), mult: None, lo2: None, hi2: Some(b * 1000 + d), big: 0 });
                    v.push(Case { integer, lo: Some((b * 1000, ex)), hi: Some(((b + 7) * 1000, false)), mult: None, lo2: Some(b * 1000 + d), hi2: None, big: 0 });
                    v.push(Case { integer, lo: Some((b * 1000, ex)), hi: Some((b * 1000, !ex)), mult: None, lo2: Some(b * 1000), hi2: Some(b * 1000 + d.max(0)), big: 0 });
                }
            }
        }
        v.push(Case { integer: false, lo: None, hi: Some((b * 1000 + 500, true)), mult: None, lo2: None, hi2: Some(b * 1000 + 500), big: 0 });
        v.push(Case { integer: false, lo: Some((b * 1000 + 500, false)), hi: None, mult: Some(500), lo2: Some(b * 1000 + 500), hi2: None, big: 0 });
    }
    // (5) multipleOf crossed with windows
    let mults: [i64; 13] = [1000, 2000, 3000, 5000, 7000, 10000, 25000, 100000, 500, 100, 250, 10, 1500];
    let wm: i64 = tier.pick(24, 60);
    for &m in &mults {
        for lo in (-wm..=wm).step_by(1) {
            for span in [0i64, 1, 2, 3, 5, 8, 13, 30, 100] {
                let hi = lo + span;
                let pat = (lo + span).rem_euclid(4);
                v.push(Case { integer: m % 1000 == 0 && pat != 3, lo: Some((lo * 1000, pat & 1 == 1)), hi: Some((hi * 1000, pat & 2 == 2)), mult: Some(m), lo2: None, hi2: None, big: 0 });
                if m % 1000 != 0 {
                    v.push(Case { integer: false, lo: Some((lo * 1000 + 250, pat & 1 == 1)), hi: Some((hi * 1000 + 750, pat & 2 == 2)), mult: Some(m), lo2: None, hi2: None, big: 0 });
                }
            }
        }
        v.push(Case { integer: false, lo: None, hi: None, mult: Some(m), lo2: None, hi2: None, big: 0 });
        v.push(Case { integer: true, lo: None, hi: None, mult: Some(m), lo2: None, hi2: None, big: 0 });
        v.push(Case { integer: false, lo: Some((-3500, false)), hi: None, mult: Some(m), lo2: None, hi2: None, big: 0 });
        v.push(Case { integer: false, lo: None, hi: Some((7250, true)), mult: Some(m), lo2: None, hi2: None, big: 0 });
    }
    v
}

impl Prop for C08 {
    type Case = Case;
    const ID: &'static str = "C08";
    fn rule(&self) -> String {
        "grid: (1) every integer pair lo<=hi in [-W,W]^2 (quick W=120, thorough 400) with a rotating inclusive/exclusive pattern, (2) half-open and \
         unbounded schemas, (3) number and integer schemas over a structured set of decimal bounds (<= 3 fractional digits: around 0, +-1, equal \
         integer parts, equal prefixes, trailing zeros, 9-runs), (4) bounds at 10^e-1, 10^e, 10^e+1 for e <= 15, (10) multipleOf with three fraction digits {0.125,0.025,0.075,0.004,0.012,0.008,0.375,0.001,0.005,0.002} over windows of width 0.1..2.5 with every tenth and hundredth inside as literal, (9) multipleOf in {0.1,0.01,0.25,0.5,1.25,1.5,2.5} against decimal windows of width 0..0.3 on a 0.05 raster and against integer windows under integer schemas, (8) number schemas with both bounds inside one integer part: every upper bound in thousandths up to +0.42 against lower bounds on a 0.05 (thorough 0.01) raster, some mirrored to negative, (7) bounds m*10^e for m in {1,2,5,9}, e in {12,15..20,22} \
         (up to and beyond 2^63; literals also around +-2^53, 2^63, 2^64), (5) multipleOf in {1,2,3,5,7,10,25,\
         100,0.5,0.1,0.25,0.01,1.5} crossed with windows; plus random bounds. Literals per schema: every integer in/around small windows, bound \
         +-10^-k (k<=6), digit-count neighbours, each re-spelt with 1-2 trailing zeros. evaluation = one literal verdict (validate_tokens(text+EOS)) \
         or one compile/satisfiability verdict against exact integer arithmetic; non-trivial = schema with a fractional bound, bounds of different \
         sign or digit count, or multipleOf; distinct by schema text"
            .into()
    }
    fn assumptions(&self) -> Vec<String> {
        vec![
            "bounds whose text does not round-trip through f64 shortest printing are skipped and counted".into(),
            "integral values written with a fraction part (3.0) are not asserted for integer schemas (statement readable either way)".into(),
            "no exponents, no negative zero".into(),
        ]
    }
    fn cases(&self, tier: Tier) -> u32 {
        tier.pick(200, 3000)
    }
    fn strategy(&self, _tier: Tier) -> BoxedStrategy<Case> {
        let bd = |range: i64| proptest::option::weighted(0.8, (-range..range, any::<bool>()));
        let frac = prop_oneof![3 => Just(1000i64), 1 => Just(100i64), 1 => Just(10i64), 1 => Just(1i64)];
        (any::<bool>(), bd(3_000_000), 0i64..2_000_000, any::<bool>(), proptest::bool::weighted(0.8), frac, proptest::option::weighted(0.3, prop_oneof![Just(1000i64), Just(2000), Just(3000), Just(7000), Just(500), Just(250), Just(100), Just(10), Just(1500), Just(12000)]))
            .prop_map(|(integer, lo, span, exh, has_hi, q, mult)| {
                // quantise bounds to q thousandths
                let lo = lo.map(|(v, e)| (v / q * q, e));
                let hi = if has_hi { Some(((lo.map(|l| l.0).unwrap_or(-1000) + span) / q * q, exh)) } else { None };
                Case { integer, lo, hi, mult, lo2: None, hi2: None, big: 0 }
            })
            .boxed()
    }
    fn run(&self, case: &Case, ctx: &mut Ctx) -> R {
        run_case(case, ctx)
    }
    fn exhaustive(&self, tier: Tier, known: &BTreeSet<String>) -> Vec<(Stats, Option<(Case, Failure)>)> {
        let items = grid(tier);
        par_chunks(&items, known, tier, |c, ctx| run_case(c, ctx).map_err(|f| (c.clone(), f)))
    }
}
