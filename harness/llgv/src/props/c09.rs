//! C09 — repetition counts and length bounds are exact.

use crate::engine::{factory, is_limit_error, matcher, short_err, GrammarSpec};
use crate::runner::{par_chunks, Ctx, Failure, Prop, Stats, Tier, R};
use crate::util::{esc, Fnv};
use crate::walk::byte_vocab;
use proptest::prelude::*;
use serde::{Deserialize, Serialize};
use serde_json::json;
use std::collections::BTreeSet;

#[derive(Clone, Copy, Debug, Serialize, Deserialize, PartialEq, Eq, Hash)]
pub enum Form {
    /// `start: "a"{m,n}`
    RuleLit1,
    /// `start: "ab"{m,n}`
    RuleLit2,
    /// `start: e{m,n}` with `e: "a" | "b"`
    RuleNt,
    /// `start: ( "a" "," ){m,n}`
    RuleGroupSep,
    /// `start: "a"~m .. n` (the unspaced standard-Lark spelling `~m..n` does not lex: `0.` is read as a number;
    /// C09 does not list this spelling, so that is only noted in DESIGN.md)
    RuleTilde,
    /// `start: "<" "a"{m,n} ">"` (repetition in the middle of a rule)
    RuleMiddle,
    /// `start: T`, `T: "a"{m,n}`
    TermLit,
    /// `start: T`, `T: /[ab]/{m,n} "!"`
    TermClass,
    /// `start: /a{m,n}/`
    RegexLit,
    /// `start: /(ab){m,n}c/`
    RegexGroup,
    /// `from_regex("[ab]{m,n}")`
    RegexClass,
    /// `start: e{m,n} "-" e{d}` with d = n-m: two repetitions of the same rule node in one grammar
    /// (the builder memoises "at most" and "exactly" nodes per (element, count))
    RulePairExact,
    /// `start: e{d} "-" e{m,n}` (exact first)
    RulePairExactFirst,
    /// `start: e{m,n} "-" e{d,}`
    RulePairAtLeast,
    /// JSON minItems/maxItems, no prefixItems
    JsonItems,
    /// JSON minItems/maxItems with two prefixItems
    JsonItemsPrefix,
    /// minLength/maxLength, ASCII
    JsonLenAscii,
    /// 2-byte characters
    JsonLenE,
    /// 4-byte characters
    JsonLenEmoji,
    /// the two-byte escape `\n` counts as one character
    JsonLenEscape,
    /// `\uXXXX` escapes (incl. a surrogate pair) under json_allow_general_unicode_escapes
    JsonLenUnicodeEscape,
    /// map-like object: min/maxProperties
    JsonProps,
    /// min/maxProperties with one required declared property
    JsonPropsRequired,
    /// minLength/maxLength next to an `enum` of strings with 0..n+3 characters (1-, 2- and 4-byte characters mixed):
    /// the members are literals, whose length is checked where the schema is compiled
    JsonLenEnum,
}

pub const FORMS: &[Form] = &[
    Form::RuleLit1,
    Form::RuleLit2,
    Form::RuleNt,
    Form::RuleGroupSep,
    Form::RuleTilde,
    Form::RuleMiddle,
    Form::TermLit,
    Form::TermClass,
    Form::RegexLit,
    Form::RegexGroup,
    Form::RegexClass,
    Form::RulePairExact,
    Form::RulePairExactFirst,
    Form::RulePairAtLeast,
    Form::JsonItems,
    Form::JsonItemsPrefix,
    Form::JsonLenAscii,
    Form::JsonLenE,
    Form::JsonLenEmoji,
    Form::JsonLenEscape,
    Form::JsonLenUnicodeEscape,
    Form::JsonProps,
    Form::JsonPropsRequired,
    Form::JsonLenEnum,
];

/// how the bound is written
#[derive(Clone, Copy, Debug, Serialize, Deserialize, PartialEq, Eq, Hash)]
pub enum Bound {
    Range(u32, u32),
    AtLeast(u32),
    Exact(u32),
    Star,
    Plus,
    Opt,
}

impl Bound {
    pub fn lo_hi(&self) -> (u32, Option<u32>) {
        match *self {
            Bound::Range(m, n) => (m, Some(n)),
            Bound::AtLeast(m) => (m, None),
            Bound::Exact(n) => (n, Some(n)),
            Bound::Star => (0, None),
            Bound::Plus => (1, None),
            Bound::Opt => (0, Some(1)),
        }
    }
    fn suffix(&self) -> String {
        match *self {
            Bound::Range(m, n) => format!("{{{},{}}}", m, n),
            Bound::AtLeast(m) => format!("{{{},}}", m),
            Bound::Exact(n) => format!("{{{}}}", n),
            Bound::Star => "*".into(),
            Bound::Plus => "+".into(),
            Bound::Opt => "?".into(),
        }
    }
}

#[derive(Clone, Debug, Serialize, Deserialize, PartialEq, Eq, Hash)]
pub struct Case {
    pub form: Form,
    pub bound: Bound,
}

pub struct C09;

fn is_json(f: Form) -> bool {
    matches!(
        f,
        Form::JsonItems | Form::JsonItemsPrefix | Form::JsonLenAscii | Form::JsonLenE | Form::JsonLenEmoji | Form::JsonLenEscape | Form::JsonLenUnicodeEscape | Form::JsonProps | Form::JsonPropsRequired | Form::JsonLenEnum
    )
}

/// grammar for the case, or None when the combination is not expressible
pub fn grammar(c: &Case) -> Option<GrammarSpec> {
    let (lo, hi) = c.bound.lo_hi();
    let sfx = c.bound.suffix();
    let lark_ok = hi != Some(0); // `{m,0}` / `{0}` is a documented syntax error in Lark-level repeats
    Some(match c.form {
        Form::RuleLit1 if lark_ok => GrammarSpec::Lark(format!("start: \"a\"{}\n", sfx)),
        Form::RuleLit2 if lark_ok => GrammarSpec::Lark(format!("start: \"ab\"{}\n", sfx)),
        Form::RuleNt if lark_ok => GrammarSpec::Lark(format!("start: e{}\ne: \"a\" | \"b\"\n", sfx)),
        Form::RuleGroupSep if lark_ok => GrammarSpec::Lark(format!("start: ( \"a\" \",\" ){}\n", sfx)),
        Form::RuleTilde => match c.bound {
            Bound::Range(m, n) if n > 0 => GrammarSpec::Lark(format!("start: \"a\"~{} .. {}\n", m, n)),
            Bound::Exact(n) if n > 0 => GrammarSpec::Lark(format!("start: \"a\"~{}\n", n)),
            _ => return None,
        },
        Form::RuleMiddle if lark_ok => GrammarSpec::Lark(format!("start: \"<\" \"a\"{} \">\"\n", sfx)),
        Form::TermLit if lark_ok => GrammarSpec::Lark(format!("start: T\nT: \"a\"{}\n", sfx)),
        Form::TermClass if lark_ok => GrammarSpec::Lark(format!("start: T\nT: /[ab]/{} \"!\"\n", sfx)),
        Form::RulePairExact | Form::RulePairExactFirst | Form::RulePairAtLeast => {
            let (m, n) = match c.bound {
                Bound::Range(m, n) if n > 0 => (m, n),
                _ => return None,
            };
            let d = pair_d(m, n);
            match c.form {
                Form::RulePairExact => GrammarSpec::Lark(format!("start: e{{{},{}}} \"-\" e{{{}}}\ne: \"a\" | \"b\"\n", m, n, d)),
                Form::RulePairExactFirst => GrammarSpec::Lark(format!("start: e{{{}}} \"-\" e{{{},{}}}\ne: \"a\" | \"b\"\n", d, m, n)),
                _ => GrammarSpec::Lark(format!("start: e{{{},{}}} \"-\" e{{{},}}\ne: \"a\" | \"b\"\n", m, n, d)),
            }
        }
        Form::RegexLit => GrammarSpec::Lark(format!("start: /a{}/\n", sfx)),
        Form::RegexGroup => GrammarSpec::Lark(format!("start: /(ab){}c/\n", sfx)),
        Form::RegexClass => GrammarSpec::Regex(format!("[ab]{}", sfx)),
        f if is_json(f) => {
            // JSON forms only make sense for min/max pairs
            let mut s = match f {
                Form::JsonItems => json!({"type":"array","items":{"type":"integer"}}),
                Form::JsonItemsPrefix => json!({"type":"array","prefixItems":[{"type":"boolean"},{"type":"null"}],"items":{"type":"integer"}}),
                Form::JsonProps => json!({"type":"object","additionalProperties":{"type":"integer"}}),
                Form::JsonPropsRequired => json!({"type":"object","properties":{"a":{"type":"integer"}},"required":["a"],"additionalProperties":{"type":"integer"}}),
                Form::JsonLenEnum => {
                    let top = match hi {
                        Some(h) => h + 3,
                        None => lo + 6,
                    };
                    json!({"type":"string","enum":(0..=top).map(|k| enum_member(k as usize)).collect::<Vec<_>>()})
                }
                _ => json!({"type":"string"}),
            };
            let (kmin, kmax) = match f {
                Form::JsonItems | Form::JsonItemsPrefix => ("minItems", "maxItems"),
                Form::JsonProps | Form::JsonPropsRequired => ("minProperties", "maxProperties"),
                _ => ("minLength", "maxLength"),
            };
            match c.bound {
                Bound::Range(..) | Bound::AtLeast(_) | Bound::Exact(_) => {}
                _ => return None,
            }
            s[kmin] = json!(lo);
            if let Some(h) = hi {
                s[kmax] = json!(h);
            }
            let mut xg = json!({"whitespace_flexible": false});
            if f == Form::JsonLenUnicodeEscape {
                xg["json_allow_general_unicode_escapes"] = json!(true);
            }
            s["x-guidance"] = xg;
            GrammarSpec::Json(s)
        }
        _ => return None,
    })
}

/// second count of the pair forms: n-m (at least 1)
pub fn pair_d(m: u32, n: u32) -> u32 {
    (n - m).max(1)
}

/// the k-character member of the JsonLenEnum form: a prefix of x é 😀 y x é 😀 y ...
fn enum_member(k: usize) -> String {
    ['x', 'é', '😀', 'y'].iter().cycle().take(k).collect()
}

fn ab(k: usize) -> String {
    (0..k).map(|i| if i % 2 == 0 { 'a' } else { 'b' }).collect()
}

/// pair forms: explicit (i, j) grid around the bounds
fn run_pair(case: &Case, ctx: &mut Ctx) -> R {
    let g = match grammar(case) {
        Some(g) => g,
        None => return Ok(()),
    };
    let (m, n) = match case.bound {
        Bound::Range(m, n) => (m, n),
        _ => return Ok(()),
    };
    let d = pair_d(m, n);
    let v = byte_vocab();
    let f = factory(&v);
    let m0 = matcher(&f, &g);
    let gtxt = g.text();
    if let Some(e) = m0.get_error() {
        if is_limit_error(&e) {
            return Ok(());
        }
        return ctx.fail("C09/compile-error", || format!("grammar {} does not compile: {}", gtxt, short_err(&e)));
    }
    ctx.class(&format!("form:{:?}", case.form));
    let eos = v.eos[0];
    let mut js: Vec<u32> = vec![0, d.saturating_sub(1), d, d + 1, d + 5, 3, (d % 4), n, m];
    js.sort();
    js.dedup();
    for i in 0..=(n + 2) {
        for &j in &js {
            let (first, second, want) = match case.form {
                Form::RulePairExact => (i, j, m <= i && i <= n && j == d),
                Form::RulePairAtLeast => (i, j, m <= i && i <= n && j >= d),
                _ => (j, i, j == d && m <= i && i <= n),
            };
            let s = format!("{}-{}", ab(first as usize), ab(second as usize));
            let mut toks: Vec<u32> = s.bytes().map(|b| b as u32).collect();
            toks.push(eos);
            let k = m0.clone().validate_tokens(&toks).unwrap_or(usize::MAX);
            let got = k == toks.len();
            ctx.eval(1);
            if got != want {
                let key = if got { "C09/count-outside-bounds-accepted" } else { "C09/count-inside-bounds-rejected" };
                return ctx.fail(key, || format!("grammar {}: {:?} ({} and {} repetitions): accepted as complete={} expected={}", gtxt, s, first, second, got, want));
            }
        }
    }
    if n >= 12 || n - m >= 12 {
        ctx.nontrivial(Fnv::new().str(&format!("{:?}", case)).finish());
    }
    Ok(())
}

/// the string with exactly k repetitions
pub fn sample(form: Form, k: u32) -> Vec<u8> {
    let k = k as usize;
    let rep = |s: &str| s.repeat(k).into_bytes();
    match form {
        Form::RuleLit1 | Form::RuleTilde | Form::TermLit | Form::RegexLit => rep("a"),
        Form::RuleLit2 => rep("ab"),
        Form::RuleNt | Form::RegexClass => (0..k).map(|i| if i % 2 == 0 { b'a' } else { b'b' }).collect(),
        Form::RuleGroupSep => rep("a,"),
        Form::RuleMiddle => format!("<{}>", "a".repeat(k)).into_bytes(),
        Form::RulePairExact | Form::RulePairExactFirst | Form::RulePairAtLeast => vec![],
        Form::TermClass => {
            let mut v: Vec<u8> = (0..k).map(|i| if i % 3 == 0 { b'b' } else { b'a' }).collect();
            v.push(b'!');
            v
        }
        Form::RegexGroup => format!("{}c", "ab".repeat(k)).into_bytes(),
        Form::JsonItems => format!("[{}]", vec!["7"; k].join(",")).into_bytes(),
        Form::JsonItemsPrefix => {
            let items: Vec<String> = (0..k).map(|i| if i == 0 { "true".to_string() } else if i == 1 { "null".to_string() } else { "3".to_string() }).collect();
            format!("[{}]", items.join(",")).into_bytes()
        }
        Form::JsonLenEnum => format!("\"{}\"", enum_member(k)).into_bytes(),
        Form::JsonLenAscii => format!("\"{}\"", "x".repeat(k)).into_bytes(),
        Form::JsonLenE => format!("\"{}\"", "é".repeat(k)).into_bytes(),
        Form::JsonLenEmoji => format!("\"{}\"", "😀".repeat(k)).into_bytes(),
        Form::JsonLenEscape => format!("\"{}\"", (0..k).map(|i| if i % 2 == 0 { "\\n" } else { "\\\"" }).collect::<String>()).into_bytes(),
        Form::JsonLenUnicodeEscape => format!("\"{}\"", (0..k).map(|i| if i % 2 == 0 { "\\u00e9" } else { "\\ud83d\\ude00" }).collect::<String>()).into_bytes(),
        Form::JsonProps => format!("{{{}}}", (0..k).map(|i| format!("\"k{}\":1", i)).collect::<Vec<_>>().join(",")).into_bytes(),
        Form::JsonPropsRequired => {
            if k == 0 {
                b"{}".to_vec()
            } else {
                let mut items = vec!["\"a\":5".to_string()];
                for i in 1..k {
                    items.push(format!("\"k{}\":1", i));
                }
                format!("{{{}}}", items.join(",")).into_bytes()
            }
        }
    }
}

/// is the count k admissible for reasons other than the bound (JsonPropsRequired needs "a")
fn structurally_ok(form: Form, k: u32) -> bool {
    match form {
        Form::JsonPropsRequired => k >= 1,
        _ => true,
    }
}

/// for prefix viability: the sample's closing part (`>`, `!`, `c`, `]`, `"`, `}`) is stripped
fn open_prefix(form: Form, k: u32) -> Vec<u8> {
    let mut s = sample(form, k);
    match form {
        Form::RuleMiddle | Form::TermClass | Form::RegexGroup => {
            s.pop();
        }
        f if is_json(f) => {
            s.pop();
        }
        _ => {}
    }
    s
}

pub fn run_case(case: &Case, ctx: &mut Ctx) -> R {
    if matches!(case.form, Form::RulePairExact | Form::RulePairExactFirst | Form::RulePairAtLeast) {
        return run_pair(case, ctx);
    }
    let g = match grammar(case) {
        Some(g) => g,
        None => return Ok(()),
    };
    let (lo, hi) = case.bound.lo_hi();
    let v = byte_vocab();
    let f = factory(&v);
    let m0 = matcher(&f, &g);
    let gtxt = g.text();
    // a required declared property makes counts below 1 impossible; min > max is unsatisfiable
    let satisfiable = match case.form {
        Form::JsonPropsRequired => hi.is_none_or(|h| h >= 1),
        _ => true,
    };
    if let Some(e) = m0.get_error() {
        ctx.eval(1);
        if is_limit_error(&e) {
            ctx.class("engine_limit");
            return Ok(());
        }
        if !satisfiable {
            ctx.class("unsatisfiable_rejected");
            return Ok(());
        }
        return ctx.fail("C09/compile-error", || format!("grammar {} does not compile: {}", gtxt, short_err(&e)));
    }
    ctx.class(&format!("form:{:?}", case.form));
    let top = match hi {
        Some(h) => h + 3,
        None => lo + 6,
    };
    let eos = v.eos[0];
    for k in 0..=top {
        let s = sample(case.form, k);
        let mut toks: Vec<u32> = s.iter().map(|b| *b as u32).collect();
        toks.push(eos);
        let want = lo <= k && hi.is_none_or(|h| k <= h) && structurally_ok(case.form, k);
        let n = match m0.clone().validate_tokens(&toks) {
            Ok(n) => n,
            Err(e) => {
                if is_limit_error(&e.to_string()) {
                    ctx.class("engine_limit");
                    return Ok(());
                }
                return ctx.fail("C09/validate-error", || format!("grammar {}: {}", gtxt, short_err(&e.to_string())));
            }
        };
        let got = n == toks.len();
        ctx.eval(1);
        if want != got {
            let key = if got { "C09/count-outside-bounds-accepted" } else { "C09/count-inside-bounds-rejected" };
            return ctx.fail(key, || format!("grammar {}: {} repetitions ({:?}): accepted as complete={} expected={} (validate_tokens={} of {})", gtxt, k, esc(&s), got, want, n, toks.len()));
        }
        // prefixes: k repetitions (without the closer) are a viable prefix iff k <= hi
        let p = open_prefix(case.form, k);
        let ptoks: Vec<u32> = p.iter().map(|b| *b as u32).collect();
        if !ptoks.is_empty() {
            let pn = m0.clone().validate_tokens(&ptoks).unwrap_or(usize::MAX);
            let viable = pn == ptoks.len();
            let want_viable = hi.is_none_or(|h| k <= h);
            ctx.eval(1);
            if viable != want_viable {
                let key = if viable { "C09/prefix-beyond-maximum-viable" } else { "C09/prefix-within-maximum-not-viable" };
                return ctx.fail(key, || format!("grammar {}: prefix with {} repetitions ({:?}): viable={} expected={}", gtxt, k, esc(&p), viable, want_viable));
            }
        }
        // commit path on the boundary counts
        if want && (k == lo || Some(k) == hi) {
            let mut m = m0.clone();
            let mut ok = true;
            for &b in &s {
                if m.consume_token(b as u32).is_err() {
                    ok = false;
                    break;
                }
            }
            let fin = ok && (m.stop_reason() == llguidance::api::StopReason::NoExtension || m.is_accepting().unwrap_or(false));
            ctx.eval(1);
            if !fin {
                return ctx.fail("C09/boundary-count-not-committable", || format!("grammar {}: {} repetitions cannot be committed to an accepting state", gtxt, k));
            }
        }
    }
    let nontrivial = match (lo, hi) {
        (_, Some(h)) => h >= 12 || h - lo >= 12,
        (l, None) => l >= 12,
    };
    if nontrivial {
        ctx.nontrivial(Fnv::new().str(&format!("{:?}", case)).finish());
    }
    Ok(())
}

pub fn grid(nmax: u32, jmax: u32) -> Vec<Case> {
    let mut v = vec![];
    for &form in FORMS {
        let pair = matches!(form, Form::RulePairExact | Form::RulePairExactFirst | Form::RulePairAtLeast);
        let lim = if is_json(form) { jmax } else if pair { jmax.min(32) } else { nmax };
        for n in 0..=lim {
            for m in 0..=n {
                v.push(Case { form, bound: Bound::Range(m, n) });
            }
            if pair {
                continue;
            }
            v.push(Case { form, bound: Bound::AtLeast(n) });
            v.push(Case { form, bound: Bound::Exact(n) });
        }
        if !is_json(form) && !pair {
            v.push(Case { form, bound: Bound::Star });
            v.push(Case { form, bound: Bound::Plus });
            v.push(Case { form, bound: Bound::Opt });
        }
    }
    // distinct
    let s: BTreeSet<String> = v.iter().map(|c| format!("{:?}", c)).collect();
    assert_eq!(s.len(), v.len());
    v
}

impl Prop for C09 {
    type Case = Case;
    const ID: &'static str = "C09";
    fn rule(&self) -> String {
        "exhaustive grid: every 0 <= m <= n <= N (quick N=64 for grammar/regex forms, 40 for JSON forms; thorough 128/80) in the spellings {m,n}, \
         {m,}, {n}, *, +, ?, ~m..n for 20 forms (rule level with 1-byte / 2-byte literal / non-terminal / group with separator / mid-rule, terminal \
         level, inside /../ and from_regex, JSON min/maxItems with and without prefixItems, min/maxLength with 1/2/4-byte characters, two-byte \
         escapes, \\uXXXX escapes and surrogate pairs, min/maxProperties with and without a required property), every count 0..n+3; plus random \
         larger bounds (n <= 400) for the cheap forms; evaluation = one complete-string verdict, one prefix-viability verdict or one boundary \
         commit; non-trivial = bound with n >= 12 or n-m >= 12; distinct by (form, bound)"
            .into()
    }
    fn assumptions(&self) -> Vec<String> {
        vec!["`{m,0}` at Lark level is a documented syntax error and is not generated there".into()]
    }
    fn cases(&self, tier: Tier) -> u32 {
        tier.pick(20, 200)
    }
    fn strategy(&self, _tier: Tier) -> BoxedStrategy<Case> {
        let forms: Vec<Form> = FORMS.iter().cloned().filter(|f| !is_json(*f) || matches!(f, Form::JsonLenAscii | Form::JsonItems)).collect();
        (0..forms.len(), 0u32..400, 0u32..120, 0u8..3)
            .prop_map(move |(fi, m, d, kind)| {
                let form = forms[fi];
                let (m, d) = if is_json(form) { (m % 120, d % 60) } else { (m, d) };
                let bound = match kind {
                    0 => Bound::Range(m, m + d),
                    1 => Bound::AtLeast(m),
                    _ => Bound::Exact(m.max(1)),
                };
                Case { form, bound }
            })
            .boxed()
    }
    fn run(&self, case: &Case, ctx: &mut Ctx) -> R {
        run_case(case, ctx)
    }
    fn exhaustive(&self, tier: Tier, known: &BTreeSet<String>) -> Vec<(Stats, Option<(Case, Failure)>)> {
        let items = grid(tier.pick(64, 128), tier.pick(40, 80));
        par_chunks(&items, known, tier, |c, ctx| run_case(c, ctx).map_err(|f| (c.clone(), f)))
    }
}
