//! C11 — internal caching never changes a mask; C12 — rollback restores exactly the earlier
//! state.  Both use one interpreter of abstract histories: the live engine executes the
//! history, the model is a freshly built engine (own factory) replaying the net tokens.

use crate::engine::{factory, is_limit_error, matcher, short_err, GrammarSpec};
use crate::runner::{Ctx, Prop, Tier, R};
use crate::util::{esc, frac, Fnv};
use crate::vocab::{Vocab, VocabSpec};
use crate::walk::{choose, mask_ids, step_strategy, Step};
use llguidance::api::StopReason;
use llguidance::Matcher;
use proptest::prelude::*;
use serde::{Deserialize, Serialize};

#[derive(Clone, Debug, Serialize, Deserialize, PartialEq)]
pub enum Q {
    Mask,
    MaskTwice,
    InvalidateThenMask,
    Validate(u16, u16),
    Accepting,
    FfBytes,
    FfTokens,
}

#[derive(Clone, Debug, Serialize, Deserialize, PartialEq)]
pub enum Op {
    Commit(Step),
    CommitEos,
    /// like CommitEos, with the last of the vocabulary's EOS tokens (a secondary one if there are several)
    CommitEosLast,
    Rollback(u16),
    Reset,
    Query(Q),
    /// compare every observable of the live engine with a fresh replay
    Check,
}

#[derive(Clone, Debug, Serialize, Deserialize)]
pub struct Case {
    pub g: GrammarSpec,
    pub vocab: VocabSpec,
    pub ops: Vec<Op>,
}

fn q_strategy() -> impl Strategy<Value = Q> {
    prop_oneof![
        3 => Just(Q::Mask),
        2 => Just(Q::MaskTwice),
        2 => Just(Q::InvalidateThenMask),
        2 => any::<(u16, u16)>().prop_map(|(a, b)| Q::Validate(a, b)),
        1 => Just(Q::Accepting),
        2 => Just(Q::FfBytes),
        1 => Just(Q::FfTokens),
    ]
}

pub fn op_strategy(rollback_weight: u32, query_weight: u32) -> BoxedStrategy<Op> {
    prop_oneof![
        10 => step_strategy().prop_map(Op::Commit),
        1 => Just(Op::CommitEos),
        1 => Just(Op::CommitEosLast),
        rollback_weight => any::<u16>().prop_map(Op::Rollback),
        1 => Just(Op::Reset),
        query_weight => q_strategy().prop_map(Op::Query),
        4 => Just(Op::Check),
    ]
    .boxed()
}

/// grammars where different prefixes reach the same lexer state at the same row index
fn collision_grammar() -> BoxedStrategy<GrammarSpec> {
    prop_oneof![
        Just(GrammarSpec::Lark("start: \"a\" \"x\" \"1\" | \"b\" \"x\" \"2\"\n".into())),
        Just(GrammarSpec::Lark("start: (\"a\"|\"b\") X \"!\"\nX: /[a-z]{2,6}/\n".into())),
        Just(GrammarSpec::Lark("start: A B | C D\nA: \"a\"\nC: \"c\"\nB: /x[0-9]*/\nD: /x[a-z]*/\n".into())),
        Just(GrammarSpec::Lark("start: item+\nitem: \"(\" NAME \")\" | \"[\" NAME \"]\"\nNAME: /[a-z]+/\n%ignore / +/\n".into())),
        Just(GrammarSpec::Json(serde_json::json!({"type":"object","properties":{"a":{"type":"string","maxLength":6},"b":{"type":"string","maxLength":4}},"required":["a","b"],"additionalProperties":false}))),
        Just(GrammarSpec::Json(serde_json::json!({"anyOf":[{"type":"array","items":{"type":"string"}},{"type":"array","items":{"type":"integer"}}]}))),
    ]
    .boxed()
}

pub fn case_strategy(tier: Tier, rollback_weight: u32, query_weight: u32, with_stop_lexemes: bool) -> BoxedStrategy<Case> {
    // C11 quantifies over every grammar; C12 over those that support rollback (no stop= / max_tokens=)
    let any = if with_stop_lexemes { crate::gen::any_grammar_ext() } else { crate::gen::any_grammar_core_ext() };
    let g = prop_oneof![9 => any, 3 => collision_grammar(), 1 => crate::gen::token_ref_grammar()];
    g.prop_flat_map(move |g| {
        (
            Just(g.clone()),
            crate::props::c01::vocab_for(g, tier),
            proptest::collection::vec(op_strategy(rollback_weight, query_weight), 4..40),
        )
    })
    .prop_map(|(g, vocab, ops)| Case { g, vocab, ops })
    .boxed()
}

#[derive(Debug, PartialEq, Clone)]
pub struct Obs {
    pub stopped: bool,
    pub reason: StopReason,
    pub accepting: Option<bool>,
    pub ff_bytes: Vec<u8>,
    pub mask: Option<Vec<u32>>,
    pub mask_err_is_limit: bool,
}

/// all observables; `m` is modified only by what the property says must be unobservable
pub fn observe(m: &mut Matcher, n: usize, with_ff: bool) -> Obs {
    let stopped = m.is_stopped();
    let reason = m.stop_reason();
    if stopped {
        return Obs { stopped, reason, accepting: None, ff_bytes: vec![], mask: None, mask_err_is_limit: false };
    }
    let accepting = m.is_accepting().ok();
    let ff_bytes = if with_ff { m.compute_ff_bytes() } else { vec![] };
    let (mask, lim) = match m.compute_mask() {
        Ok(x) => (Some(crate::engine::mask_words(&x, n)), false),
        Err(e) => (None, is_limit_error(&e.to_string())),
    };
    Obs { stopped, reason, accepting, ff_bytes, mask, mask_err_is_limit: lim }
}

fn fresh(vocab: &Vocab, g: &GrammarSpec, tokens: &[u32]) -> Result<Matcher, String> {
    let f = factory(vocab);
    let mut m = matcher(&f, g);
    for &t in tokens {
        m.consume_token(t).map_err(|e| short_err(&e.to_string()))?;
    }
    Ok(m)
}

fn diff_masks(a: &[u32], b: &[u32], vocab: &Vocab) -> String {
    let mut out = vec![];
    for t in 0..vocab.len() {
        let x = a[t / 32] >> (t % 32) & 1;
        let y = b[t / 32] >> (t % 32) & 1;
        if x != y && out.len() < 6 {
            out.push(format!("token {} {:?}: live={} model={}", t, esc(vocab.bytes(t as u32)), x, y));
        }
    }
    out.join("; ")
}

pub fn run_history(prefix: &'static str, case: &Case, ctx: &mut Ctx) -> R {
    let vocab = match case.vocab.build() {
        Ok(v) => v,
        Err(_) => return Ok(()),
    };
    let n = vocab.len();
    let f = factory(&vocab);
    let mut m = matcher(&f, &case.g);
    if m.is_error() {
        ctx.class("compile_error");
        return Ok(());
    }
    // grammars with token references (<[id]>, <[a-b]>, <|eos|>): two known findings, keyed by what the history did
    let tokref = matches!(&case.g, GrammarSpec::Lark(t) if t.contains("<[") || t.contains("<|"));
    if tokref {
        ctx.class("grammar_with_token_references");
    }
    let mut rollback_attempted = false;
    let mut had_ff_query = false;
    macro_rules! key {
        ($k:expr) => {{
            let base = format!("{}/{}", prefix, $k);
            if tokref && rollback_attempted {
                format!("{}@rollback-over-token-reference", base)
            } else if tokref && had_ff_query {
                format!("{}@forced-bytes-query-at-token-reference", base)
            } else {
                base
            }
        }};
    }
    // rollback and reset are documented as unsupported with stop= / max_tokens= lexemes: such
    // histories consist of commits and read-only queries only
    let can_rollback = crate::gen::supports_rollback(&case.g);
    if !can_rollback {
        ctx.class("grammar_with_stop_or_max_tokens_lexeme");
    }
    let gtxt = crate::util::truncate_str(&case.g.text(), 400);
    let mut tokens: Vec<u32> = vec![];
    let mut had_rollback = false;
    let mut crossed_interesting = false;
    let mut cache_hits_after_rollback = 0;
    let mut done_ops: Vec<String> = vec![];
    let final_check = [Op::Check];
    for (i, op) in case.ops.iter().chain(final_check.iter()).enumerate() {
        macro_rules! tag {
            ($e:expr) => {
                format!("grammar {} ops {:?} net tokens {:?}: {}", gtxt, done_ops, tokens, $e)
            };
        }
        match op {
            Op::Commit(st) => {
                // the token is chosen from the *model's* mask so that the live engine sees no
                // query it was not asked for
                let mut fr = match fresh(&vocab, &case.g, &tokens) {
                    Ok(x) => x,
                    Err(_) => return Ok(()),
                };
                if fr.is_stopped() {
                    continue;
                }
                let acc = fr.is_accepting().unwrap_or(false);
                let mask = match fr.compute_mask() {
                    Ok(x) => x,
                    Err(_) => return Ok(()),
                };
                let ids = mask_ids(&mask, n);
                let t = match choose(&ids, &vocab, st, acc) {
                    Some(t) => t,
                    None => continue,
                };
                if let Err(e) = m.consume_token(t) {
                    if is_limit_error(&e.to_string()) {
                        return Ok(());
                    }
                    return ctx.fail(&key!("model-allowed-token-fails-to-commit"), || tag!(&format!("commit of token {} (allowed by a fresh engine in the same net state) failed: {}", t, short_err(&e.to_string()))));
                }
                tokens.push(t);
                done_ops.push(format!("commit({})", t));
                continue;
            }
            Op::CommitEos | Op::CommitEosLast => {
                let mut fr = match fresh(&vocab, &case.g, &tokens) {
                    Ok(x) => x,
                    Err(_) => return Ok(()),
                };
                if fr.is_stopped() || !fr.is_accepting().unwrap_or(false) {
                    continue;
                }
                let e = if *op == Op::CommitEosLast { *vocab.eos.last().unwrap() } else { vocab.eos[0] };
                if let Err(er) = m.consume_token(e) {
                    return ctx.fail(&key!("eos-commit-failed-in-accepting-state"), || tag!(&short_err(&er.to_string())));
                }
                tokens.push(e);
                done_ops.push(format!("commit(EOS {})", e));
                crossed_interesting = true;
                continue;
            }
            Op::Rollback(fr) => {
                if tokens.is_empty() || !can_rollback {
                    continue;
                }
                let k = 1 + frac(*fr, tokens.len());
                let was_stopped = m.is_stopped();
                let dropped: Vec<u32> = tokens[tokens.len() - k..].to_vec();
                rollback_attempted = true;
                if let Err(e) = m.rollback(k) {
                    return ctx.fail(&key!("rollback-failed"), || tag!(&format!("rollback({}) failed: {}", k, short_err(&e.to_string()))));
                }
                tokens.truncate(tokens.len() - k);
                had_rollback = true;
                if was_stopped || dropped.iter().any(|t| vocab.is_eos(*t) || vocab.bytes(*t).len() > 1) {
                    crossed_interesting = true;
                }
                done_ops.push(format!("rollback({})", k));
                continue;
            }
            Op::Reset => {
                if !can_rollback {
                    continue;
                }
                rollback_attempted |= !tokens.is_empty();
                if let Err(e) = m.reset() {
                    return ctx.fail(&key!("reset-failed"), || tag!(&short_err(&e.to_string())));
                }
                if !tokens.is_empty() {
                    had_rollback = true;
                }
                tokens.clear();
                done_ops.push("reset".into());
                continue;
            }
            Op::Query(q) => {
                if m.is_stopped() {
                    continue;
                }
                done_ops.push(format!("{:?}", q));
                match q {
                    Q::Mask => {
                        let _ = m.compute_mask();
                    }
                    Q::MaskTwice => {
                        let a = m.compute_mask().ok().map(|x| crate::engine::mask_words(&x, n));
                        let st = m.last_step_stats().ok().cloned();
                        let b = m.compute_mask().ok().map(|x| crate::engine::mask_words(&x, n));
                        let st2 = m.last_step_stats().ok().cloned();
                        ctx.eval(1);
                        if a != b {
                            return ctx.fail(&key!("mask-differs-when-computed-twice"), || tag!("second compute_mask differs from the first"));
                        }
                        if let (Some(_), Some(s2)) = (st, st2) {
                            if s2.trie_nodes_walked == 0 && s2.slices_applied == 0 && a.is_some() {
                                ctx.class("cache_hit_on_second_mask");
                                if had_rollback {
                                    cache_hits_after_rollback += 1;
                                }
                            }
                        }
                    }
                    Q::InvalidateThenMask => {
                        let a = m.compute_mask().ok().map(|x| crate::engine::mask_words(&x, n));
                        m.invalidate_bias_cache();
                        let b = m.compute_mask().ok().map(|x| crate::engine::mask_words(&x, n));
                        ctx.eval(1);
                        if a != b {
                            let d = match (&a, &b) {
                                (Some(a), Some(b)) => diff_masks(a, b, &vocab),
                                _ => "one of them failed".into(),
                            };
                            return ctx.fail(&key!("mask-differs-after-cache-invalidation"), || tag!(&d));
                        }
                    }
                    Q::Validate(a, b) => {
                        let mut seq = vec![];
                        for j in 0..(1 + frac(*a, 5)) {
                            seq.push(frac(b.wrapping_mul(31).wrapping_add(j as u16 * 7919), n) as u32);
                        }
                        let _ = m.validate_tokens(&seq);
                    }
                    Q::Accepting => {
                        let _ = m.is_accepting();
                    }
                    Q::FfBytes => {
                        had_ff_query = true;
                        let _ = m.compute_ff_bytes();
                    }
                    Q::FfTokens => {
                        had_ff_query = true;
                        let _ = m.compute_ff_tokens();
                    }
                }
                if m.is_error() {
                    // a query must not fail on a live, unstopped engine unless a limit was hit
                    let e = m.get_error().unwrap_or_default();
                    if is_limit_error(&e) {
                        return Ok(());
                    }
                    // a dead end (empty language) fails the same way on a fresh engine: not a caching matter
                    if let Ok(mut fr) = fresh(&vocab, &case.g, &tokens) {
                        if fr.compute_mask().is_err() {
                            ctx.class("mask_fails_on_fresh_engine_too");
                            return Ok(());
                        }
                    }
                    // known findings: internal panics of hidden stop= lexemes (forced stop byte; stop text that
                    // continues into the next lexeme), see engine::hidden_stop_panic
                    let k = match crate::engine::hidden_stop_panic(&e) {
                        Some(k) if !can_rollback => k,
                        _ => "query-failed",
                    };
                    return ctx.fail(&key!(k), || tag!(&format!("query {:?} put the engine into error state: {}", q, short_err(&e))));
                }
                continue;
            }
            Op::Check => {
                done_ops.push("check".into());
            }
        }
        // ---- compare with the model after every operation
        let mut fr = match fresh(&vocab, &case.g, &tokens) {
            Ok(x) => x,
            Err(e) => {
                if is_limit_error(&e) {
                    return Ok(());
                }
                return ctx.fail(&key!("model-cannot-replay-net-history"), || tag!(&format!("a fresh engine rejects the net history: {}", e)));
            }
        };
        let with_ff = i % 2 == 0;
        if with_ff {
            // the observation itself asks for forced bytes
            had_ff_query = true;
        }
        let live = observe(&mut m, n, with_ff);
        let model = observe(&mut fr, n, with_ff);
        ctx.eval(1);
        if live.mask_err_is_limit || model.mask_err_is_limit {
            return Ok(());
        }
        if live != model {
            let what = if live.stopped != model.stopped || live.reason != model.reason {
                format!("stop status live={:?}/{:?} model={:?}/{:?}", live.stopped, live.reason, model.stopped, model.reason)
            } else if live.accepting != model.accepting {
                format!("is_accepting live={:?} model={:?}", live.accepting, model.accepting)
            } else if live.ff_bytes != model.ff_bytes {
                format!("forced bytes live={:?} model={:?}", esc(&live.ff_bytes), esc(&model.ff_bytes))
            } else {
                match (&live.mask, &model.mask) {
                    (Some(a), Some(b)) => format!("mask: {}", diff_masks(a, b, &vocab)),
                    (a, b) => format!("mask availability live={} model={}", a.is_some(), b.is_some()),
                }
            };
            // known finding: a lexeme with `stop=""` and `max_tokens=`: a mask query before a commit changes whether EOS
            // is allowed afterwards (the only differing bit is an EOS token)
            let gt = case.g.text();
            let eos_only_under_max_tokens = gt.contains("max_tokens=") && gt.contains("stop=\"\"") && what.starts_with("mask: ") && what.matches("token ").count() == 1 && what.contains("eos");
            let k = if eos_only_under_max_tokens {
                "eos-bit-differs-after-mask-query-under-max-tokens-with-empty-stop"
            } else if had_rollback {
                "state-differs-from-fresh-replay-after-rollback"
            } else {
                "state-differs-from-fresh-replay"
            };
            return ctx.fail(&key!(k), || tag!(&what));
        }
        if live.mask.is_none() && !live.stopped {
            // both failed the same way (e.g. dead end): nothing more to do here
            return Ok(());
        }
        // behaviour on subsequent token sequences: validate two pseudo-random sequences on both
        if !live.stopped {
            for r in 0..2u16 {
                let mut seq = vec![];
                let ids = mask_ids_words(live.mask.as_ref().unwrap(), n);
                for j in 0..3u16 {
                    let s = (i as u16).wrapping_mul(911).wrapping_add(j * 7919).wrapping_add(r * 31);
                    if j == 0 && !ids.is_empty() {
                        seq.push(ids[frac(s, ids.len())]);
                    } else {
                        seq.push(frac(s, n) as u32);
                    }
                }
                let a = m.clone().validate_tokens(&seq).ok();
                let b = fr.clone().validate_tokens(&seq).ok();
                ctx.eval(1);
                if a != b {
                    return ctx.fail(&key!("validate-differs-from-fresh-replay"), || tag!(&format!("validate_tokens({:?}) live={:?} model={:?}", seq, a, b)));
                }
            }
        }
    }
    if had_rollback && crossed_interesting {
        ctx.class("rollback_crossing_multibyte_eos_or_stop");
    }
    let mut h = Fnv::new().str(&case.g.text());
    for o in &done_ops {
        h = h.str(o);
    }
    let nt = if prefix == "C11" {
        cache_hits_after_rollback > 0 || done_ops.iter().filter(|o| o.starts_with("commit")).count() >= 2 && done_ops.iter().any(|o| o.contains("Mask"))
    } else {
        had_rollback && crossed_interesting
    };
    if nt {
        ctx.nontrivial(h.finish());
    }
    Ok(())
}

fn mask_ids_words(w: &[u32], n: usize) -> Vec<u32> {
    (0..n as u32).filter(|t| w[*t as usize / 32] >> (t % 32) & 1 == 1).collect()
}

pub struct C11;
pub struct C12;

impl Prop for C11 {
    type Case = Case;
    const ID: &'static str = "C11";
    fn rule(&self) -> String {
        "case = (grammar, vocabulary, history of commit / commit-EOS / rollback / reset / read-only queries (mask, mask twice, invalidate+mask, \
         validate, is_accepting, forced bytes, ff tokens)); after every operation the live engine's observables (mask words, accepting, forced \
         bytes, stop status, validate on pseudo-random sequences) are compared with a freshly built engine replaying the net tokens; \
         evaluation = one such comparison; non-trivial = history with a cache hit after a rollback, or with >= 2 commits and a mask query; \
         distinct by hash(grammar, executed operations)"
            .into()
    }
    fn assumptions(&self) -> Vec<String> {
        vec!["resource-limit errors end a history without verdict".into()]
    }
    fn cases(&self, tier: Tier) -> u32 {
        tier.pick(600, 6000)
    }
    fn strategy(&self, tier: Tier) -> BoxedStrategy<Case> {
        case_strategy(tier, 2, 8, true)
    }
    fn run(&self, case: &Case, ctx: &mut Ctx) -> R {
        run_history("C11", case, ctx)
    }
}

impl Prop for C12 {
    type Case = Case;
    const ID: &'static str = "C12";
    fn rule(&self) -> String {
        "case = (grammar, vocabulary, history weighted towards rollback(k) for every k up to the history length, reset, EOS commits and runs to \
         completion); after every operation all observables of the live engine are compared with a freshly built engine that only saw the net \
         tokens, then both validate the same pseudo-random continuations; evaluation = one comparison; non-trivial = history containing a \
         rollback that crosses a multi-byte token, an EOS or a stop; distinct by hash(grammar, executed operations)"
            .into()
    }
    fn assumptions(&self) -> Vec<String> {
        vec!["captures are not compared (not listed as observable)".into(), "resource-limit errors end a history without verdict".into()]
    }
    fn cases(&self, tier: Tier) -> u32 {
        tier.pick(600, 6000)
    }
    fn strategy(&self, tier: Tier) -> BoxedStrategy<Case> {
        case_strategy(tier, 6, 2, false)
    }
    fn run(&self, case: &Case, ctx: &mut Ctx) -> R {
        run_history("C12", case, ctx)
    }
}
