//! C13 — fast-forward bytes and tokens are genuinely forced and change nothing.

use crate::engine::{factory_ext, is_limit_error, matcher, short_err, GrammarSpec};
use crate::runner::{Ctx, Prop, Tier, R};
use crate::util::{esc, frac, truncate_str, Fnv};
use crate::vocab::{Vocab, VocabSpec};
use crate::walk::{byte_vocab, choose, mask_ids, steps, syn_vocab_strategy, Step};
use llguidance::toktrie::InferenceCapabilities;
use llguidance::{Constraint, Matcher};
use proptest::prelude::*;
use serde::{Deserialize, Serialize};
use serde_json::json;

#[derive(Clone, Debug, Serialize, Deserialize)]
pub struct Case {
    pub g: GrammarSpec,
    pub vocab: VocabSpec,
    pub walk: Vec<Step>,
    /// prompt text pieces (indices into a fixed pool) for the prompt clause
    pub prompt: Vec<u8>,
}

pub struct C13;

fn forced_rich_grammar() -> BoxedStrategy<GrammarSpec> {
    prop_oneof![
        Just(GrammarSpec::Json(json!({"type":"object","properties":{"name":{"type":"string"},"age":{"type":"integer"},"address":{"type":"object","properties":{"street":{"type":"string"},"zip":{"type":"integer"}},"required":["street","zip"],"additionalProperties":false}},"required":["name","age","address"],"additionalProperties":false}))),
        Just(GrammarSpec::Json(json!({"type":"object","properties":{"kind":{"enum":["prefix","prefix_more","pre","other"]},"z":{"const":"zz top"},"n":{"const":12.5}},"required":["kind","z","n"],"additionalProperties":false}))),
        Just(GrammarSpec::Json(json!({"x-guidance":{"whitespace_flexible":false},"type":"array","prefixItems":[{"const":"alpha beta"},{"enum":["alpha","alphabet"]},{"type":"boolean"}],"items":false,"minItems":3}))),
        Just(GrammarSpec::Json(json!({"x-guidance":{"whitespace_flexible":false,"item_separator":", ","key_separator":": "},"type":"object","properties":{"a":{"type":"integer"},"b":{"const":null}},"required":["a","b"],"additionalProperties":false}))),
        Just(GrammarSpec::Lark("start: \"The answer is: \" NUM \" units.\\n\" \"Done\"\nNUM: /[0-9]{1,3}/\n".into())),
        Just(GrammarSpec::Lark("start: \"<tool>\" name \"</tool>\" | \"<text>\" /[a-z ]+/ \"</text>\"\nname: \"search\" | \"search_web\" | \"calc\"\n".into())),
        Just(GrammarSpec::Lark("start: \"héllo wörld 😀 \" (\"yes\" | \"yes indeed\" | \"no\") \"!\"\n".into())),
        Just(GrammarSpec::Lark("start: \"SELECT \" COL \" FROM users WHERE id = \" /[0-9]+/ \";\"\nCOL: \"name\" | \"name_full\" | \"email\"\n".into())),
        Just(GrammarSpec::Regex("(abc|abd)ef(g|gh)xyz[0-9]end".into())),
    ]
    .boxed()
}

const PROMPT_POOL: &[&str] = &[
    "Hello", " world", ", please answer", ":", "\n", " ", "The", " answ", "{\"na", "{", "\"", "SELECT", " SEL", "<to", "hé", " 12", "ab", "abc", "  ", "é😀", "The answer is", "<tool>sea",
];

/// forced bytes according to the twin: follow singleton byte masks while not accepting
fn twin_forced(twin: &Matcher, max: usize) -> Result<Vec<u8>, String> {
    let mut t = twin.clone();
    let mut out = vec![];
    for _ in 0..max {
        if t.is_stopped() {
            break;
        }
        let m = t.compute_mask().map_err(|e| e.to_string())?;
        let ids = mask_ids(&m, 257);
        if ids.len() == 1 && ids[0] < 255 {
            out.push(ids[0] as u8);
            t.consume_token(ids[0]).map_err(|e| e.to_string())?;
        } else {
            break;
        }
    }
    Ok(out)
}

/// every byte of `f` must be the only thing the twin allows (bytes and EOS alike)
fn check_forced_on_twin(twin: &Matcher, f: &[u8], ctx: &mut Ctx, tag: &dyn Fn(String) -> String) -> Result<Option<Matcher>, crate::runner::Failure> {
    let mut t = twin.clone();
    for (i, &b) in f.iter().enumerate() {
        if t.is_stopped() {
            ctx.fail("C13/forced-byte-after-twin-stop", || tag(format!("forced bytes {:?}: twin already stopped at position {}", esc(f), i)))?;
            return Ok(None);
        }
        let m = match t.compute_mask() {
            Ok(m) => m,
            Err(e) => {
                if is_limit_error(&e.to_string()) {
                    return Ok(None);
                }
                ctx.fail("C13/forced-byte-into-dead-end", || tag(format!("forced bytes {:?}: twin mask fails at position {}: {}", esc(f), i, short_err(&e.to_string()))))?;
                return Ok(None);
            }
        };
        let ids = mask_ids(&m, 257);
        ctx.eval(1);
        if ids != vec![b as u32] {
            ctx.fail("C13/forced-byte-not-the-only-choice", || {
                tag(format!("forced bytes {:?}: at position {} the grammar allows {:?} (byte ids; 256 = EOS), not only {:#x}", esc(f), i, ids, b))
            })?;
            return Ok(None);
        }
        if let Err(e) = t.consume_token(b as u32) {
            if is_limit_error(&e.to_string()) {
                return Ok(None);
            }
            ctx.fail("C13/forced-byte-rejected", || tag(format!("forced bytes {:?}: byte {} rejected by the twin", esc(f), i)))?;
            return Ok(None);
        }
    }
    Ok(Some(t))
}

/// set of byte values whose single-byte token is allowed (0xFF excluded)
fn byte_mask_of(m: &mut Matcher, vocab: &Vocab) -> Option<Vec<u32>> {
    if m.is_stopped() {
        return None;
    }
    let mask = m.compute_mask().ok()?;
    let mut out = vec![];
    for b in 0..255u32 {
        if let Some(t) = vocab.trie().token_id(&[b as u8]) {
            if mask.is_allowed(t) {
                out.push(b);
            }
        }
    }
    Some(out)
}

impl Prop for C13 {
    type Case = Case;
    const ID: &'static str = "C13";
    fn rule(&self) -> String {
        "case = (grammar with forced text (JSON fixed keys, consts, enums sharing prefixes, Lark literals) or any generated grammar, canonical \
         tokenizer (greedy over a synthetic vocabulary, or tiktoken BPE over truncated cl100k), mask walk, prompt); at each visited state the \
         engine's forced bytes are walked on a byte-level twin of the same grammar (each must be the twin's only allowed token), ff tokens must \
         decode to a prefix of the forced bytes and commit, after which engine and twin agree; the same through Constraint with ff_tokens; \
         process_prompt must conserve text. evaluation = one forced byte / one ff-token batch / one prompt identity checked; non-trivial = state \
         with >= 2 forced bytes whose ff tokens are strictly shorter than the forced bytes (chopping) or a prompt shortened by healing; distinct \
         by hash(grammar, vocabulary, committed tokens)"
            .into()
    }
    fn assumptions(&self) -> Vec<String> {
        vec!["grammars that refer to special tokens are excluded (the twin has a different vocabulary)".into()]
    }
    fn cases(&self, tier: Tier) -> u32 {
        tier.pick(1200, 12000)
    }
    fn strategy(&self, tier: Tier) -> BoxedStrategy<Case> {
        let bpe_n = tier.pick(1024usize, 4096usize);
        let g = prop_oneof![2 => forced_rich_grammar(), 1 => crate::js::schema_grammar(crate::js::Profile::Full), 1 => crate::gen::any_grammar_core_ext()];
        g.prop_flat_map(move |g| {
            let voc = prop_oneof![3 => syn_vocab_strategy(g.clone(), true), 2 => Just(VocabSpec::bpe(bpe_n, true))];
            (Just(g), voc, steps(25), proptest::collection::vec(0u8..PROMPT_POOL.len() as u8, 0..5))
        })
        .prop_map(|(g, vocab, walk, prompt)| Case { g, vocab, walk, prompt })
        .boxed()
    }

    fn run(&self, case: &Case, ctx: &mut Ctx) -> R {
        if let GrammarSpec::Lark(s) = &case.g {
            if s.contains("<[") || s.contains("<|") || s.contains("<a>") {
                return Ok(());
            }
        }
        let mut vs = case.vocab.clone();
        vs.canonical = true;
        // tokens that straddle the prompt / grammar boundary (what token healing exists for): the last bytes of the
        // prompt split in two tokens, and those bytes glued to the first byte(s) of a string the grammar produces
        {
            let text: String = case.prompt.iter().map(|i| PROMPT_POOL[*i as usize]).collect();
            let pb = text.as_bytes();
            let seeds: Vec<u16> = case.walk.iter().map(|st| st.pick).collect();
            let gs = crate::walk::sample_bytes(&case.g, &seeds, 8);
            if pb.len() >= 4 && !gs.is_empty() && matches!(vs.base, crate::vocab::Base::Byte) {
                let tail = &pb[pb.len() - 4..];
                vs.extra.push(crate::util::B(tail[..2].to_vec()));
                vs.extra.push(crate::util::B(tail[2..].to_vec()));
                for k in 1..=gs.len().min(2) {
                    let mut t = tail.to_vec();
                    t.extend_from_slice(&gs[..k]);
                    vs.extra.push(crate::util::B(t));
                    let mut t2 = tail[2..].to_vec();
                    t2.extend_from_slice(&gs[..k]);
                    vs.extra.push(crate::util::B(t2));
                }
                ctx.class("vocabulary_with_prompt_straddling_tokens");
            }
        }
        let vocab: Vocab = match vs.build() {
            Ok(v) => v,
            Err(_) => return Ok(()),
        };
        let n = vocab.len();
        let bv = byte_vocab();
        let fe = crate::engine::factory_tight(&vocab);
        let ft = crate::engine::factory_tight(&bv);
        let mut e = matcher(&fe, &case.g);
        let mut twin = matcher(&ft, &case.g);
        if e.is_error() || twin.is_error() {
            ctx.class("compile_error");
            return Ok(());
        }
        let gtxt = truncate_str(&case.g.text(), 400);
        let gh = Fnv::new().str(&case.g.text()).str(&format!("{:?}", vs)).finish();
        let mut toks: Vec<u32> = vec![];

        // ---------------- prompt clause (fresh TokenParser)
        {
            let text: String = case.prompt.iter().map(|i| PROMPT_POOL[*i as usize]).collect();
            let ptoks = vocab.env.tokenize_bytes(text.as_bytes());
            if let Ok(mut tp) = fe.create_parser(case.g.top()) {
                let f0 = match twin_forced(&twin, 200) {
                    Ok(f) => f,
                    Err(_) => return Ok(()),
                };
                let r = std::panic::catch_unwind(std::panic::AssertUnwindSafe(|| {
                    let res = tp.process_prompt(ptoks.clone());
                    let pending = tp.force_bytes();
                    (res, pending)
                }));
                ctx.eval(1);
                match r {
                    Err(_) => {
                        return ctx.fail("C13/process-prompt-panicked", || format!("grammar {} prompt {:?}: process_prompt panicked", gtxt, text));
                    }
                    Ok((res, pending)) => {
                        let mut lhs = vocab.trie().decode_raw(&res);
                        lhs.extend_from_slice(&pending);
                        let mut rhs = vocab.trie().decode_raw(&ptoks);
                        rhs.extend_from_slice(&f0);
                        if lhs != rhs {
                            return ctx.fail("C13/prompt-text-not-conserved", || {
                                format!(
                                    "grammar {} prompt {:?}: returned prompt {:?} + pending forced {:?} != original prompt + forced bytes {:?}",
                                    gtxt,
                                    text,
                                    esc(&vocab.trie().decode_raw(&res)),
                                    esc(&pending),
                                    esc(&rhs)
                                )
                            });
                        }
                        if res.len() < ptoks.len() || res != ptoks {
                            ctx.class("prompt_changed_by_healing_or_forcing");
                            ctx.nontrivial(Fnv::new().u64(gh).str(&text).finish());
                        }
                        // generation after the (possibly healed) prompt: ff tokens must commit, every commit keeps
                        // "returned prompt + generated tokens" = "original prompt + a prefix the grammar allows"
                        let prompt_bytes = vocab.trie().decode_raw(&ptoks);
                        let mut gen: Vec<u32> = vec![];
                        for st in case.walk.iter().take(8) {
                            if tp.stop_reason() != llguidance::api::StopReason::NotStopped {
                                break;
                            }
                            let step = std::panic::catch_unwind(std::panic::AssertUnwindSafe(|| -> Result<Option<Vec<u32>>, String> {
                                // the forced-token query is optional for a caller: sometimes go straight to the mask (which
                                // then sees whatever the previous forced-token query left behind)
                                let ff = if st.multi { tp.compute_ff_tokens() } else { vec![] };
                                let batch = if !ff.is_empty() {
                                    ff
                                } else {
                                    let mask = match tp.compute_mask() {
                                        Ok(m) => m,
                                        Err(_) => return Ok(None),
                                    };
                                    let ids: Vec<u32> = mask_ids(&mask, n).into_iter().filter(|t| vocab.is_regular(*t)).collect();
                                    match crate::walk::choose(&ids, &vocab, st, false) {
                                        Some(t) => vec![t],
                                        None => return Ok(None),
                                    }
                                };
                                for t in &batch {
                                    match tp.consume_token(*t) {
                                        Ok(0) => {}
                                        Ok(bt) => return Err(format!("consume_token({}) asked to backtrack {} tokens without the backtrack capability", t, bt)),
                                        Err(e) => return Err(format!("consume_token({}) of an ff / mask-allowed token failed: {}", t, crate::engine::short_err(&e.to_string()))),
                                    }
                                }
                                let _ = tp.check_stop();
                                Ok(Some(batch))
                            }));
                            ctx.eval(1);
                            let batch = match step {
                                Err(_) => return ctx.fail("C13/generation-after-prompt-panicked", || format!("grammar {} prompt {:?} generated {:?}: panic", gtxt, text, gen)),
                                Ok(Err(e)) => {
                                    if is_limit_error(&e) {
                                        break;
                                    }
                                    return ctx.fail("C13/allowed-token-rejected-after-prompt", || format!("grammar {} prompt {:?} (returned {:?}) generated {:?}: {}", gtxt, text, res, gen, e));
                                }
                                Ok(Ok(None)) => break,
                                Ok(Ok(Some(b))) => b,
                            };
                            gen.extend(batch);
                            let mut full = vocab.trie().decode_raw(&res);
                            full.extend(vocab.trie().decode_raw(&gen));
                            let ok = if full.len() <= prompt_bytes.len() {
                                prompt_bytes.starts_with(&full)
                            } else if !full.starts_with(&prompt_bytes) {
                                false
                            } else {
                                let tail: Vec<u32> = full[prompt_bytes.len()..].iter().map(|b| *b as u32).collect();
                                match twin.clone().validate_tokens(&tail) {
                                    Ok(k) => k == tail.len(),
                                    Err(_) => true,
                                }
                            };
                            if !ok {
                                return ctx.fail("C13/text-after-prompt-not-allowed-by-grammar", || {
                                    format!("grammar {} prompt {:?}: returned prompt {:?} + generated tokens {:?} spell {:?}, which is not the original prompt followed by text the grammar allows", gtxt, text, res, gen, esc(&full))
                                });
                            }
                        }
                    }
                }
            }
        }

        // ---------------- walk
        for st in &case.walk {
            if e.is_stopped() || twin.is_stopped() {
                break;
            }
            let tag = |x: String| format!("grammar {} after tokens {:?}: {}", gtxt, toks, x);
            let f = e.clone().compute_ff_bytes();
            let t = e.clone().compute_ff_tokens();
            if f.contains(&0xFF) {
                break;
            }
            // (1) forcedness of every reported byte
            if check_forced_on_twin(&twin, &f, ctx, &tag)?.is_none() && !f.is_empty() {
                return Ok(());
            }
            // (2) ff tokens: prefix of F, committable, state agrees afterwards
            if !t.is_empty() {
                let dec = vocab.trie().decode_raw(&t);
                ctx.eval(1);
                if !f.starts_with(&dec) {
                    return ctx.fail("C13/ff-tokens-not-prefix-of-forced-bytes", || tag(format!("ff tokens {:?} decode to {:?}, forced bytes are {:?}", t, esc(&dec), esc(&f))));
                }
                if f.len() >= 2 && dec.len() < f.len() {
                    let mut h = Fnv::new().u64(gh);
                    for x in &toks {
                        h = h.u64(*x as u64);
                    }
                    ctx.nontrivial(h.finish());
                    ctx.class("chopped_ff_tokens");
                }
                let mut e2 = e.clone();
                if let Err(er) = e2.consume_tokens(&t) {
                    if is_limit_error(&er.to_string()) {
                        return Ok(());
                    }
                    return ctx.fail("C13/ff-tokens-rejected", || tag(format!("ff tokens {:?} ({:?}) are rejected: {}", t, esc(&dec), short_err(&er.to_string()))));
                }
                let mut tw2 = twin.clone();
                let mut ok = true;
                for &b in &dec {
                    if tw2.consume_token(b as u32).is_err() {
                        ok = false;
                        break;
                    }
                }
                if ok {
                    // drain further ff tokens, then compare single-byte masks and accepting
                    let mut dec_all = dec.clone();
                    for _ in 0..5 {
                        let more = e2.clone().compute_ff_tokens();
                        if more.is_empty() {
                            break;
                        }
                        let d2 = vocab.trie().decode_raw(&more);
                        if e2.consume_tokens(&more).is_err() {
                            return ctx.fail("C13/ff-tokens-rejected", || tag(format!("follow-up ff tokens {:?} rejected", more)));
                        }
                        for &b in &d2 {
                            let _ = tw2.consume_token(b as u32);
                        }
                        dec_all.extend(d2);
                    }
                    if !tw2.is_error() {
                        let (a1, a2) = (e2.is_stopped(), tw2.is_stopped());
                        let (m1, m2) = (byte_mask_of(&mut e2, &vocab), byte_mask_of(&mut tw2, &bv));
                        ctx.eval(1);
                        let acc1 = if a1 { None } else { e2.is_accepting().ok() };
                        let acc2 = if a2 { None } else { tw2.is_accepting().ok() };
                        for mm in [&e2, &tw2] {
                            if let Some(er) = mm.get_error() {
                                if is_limit_error(&er) {
                                    ctx.class("engine_limit");
                                    return Ok(());
                                }
                            }
                        }
                        if a1 != a2 || m1 != m2 || acc1 != acc2 {
                            return ctx.fail("C13/state-after-ff-tokens-differs-from-bytes", || {
                                tag(format!(
                                    "after committing ff tokens {:?} the engine differs from the byte-level twin fed the same bytes: stopped {}/{} accepting {:?}/{:?} byte masks {:?} vs {:?}",
                                    esc(&dec_all), a1, a2, acc1, acc2, m1, m2
                                ))
                            });
                        }
                    }
                }
            }
            // advance
            let acc = e.is_accepting().unwrap_or(false);
            let mask = match e.compute_mask() {
                Ok(m) => m,
                Err(_) => break,
            };
            let ids = mask_ids(&mask, n);
            let tk = match choose(&ids, &vocab, st, acc) {
                Some(t) => t,
                None => break,
            };
            if !vocab.is_regular(tk) {
                break;
            }
            if e.consume_token(tk).is_err() {
                break;
            }
            let mut dead = false;
            for &b in vocab.bytes(tk) {
                if twin.consume_token(b as u32).is_err() {
                    dead = true;
                    break;
                }
            }
            if dead {
                // C02's business (or a limit); stop here
                break;
            }
            toks.push(tk);
        }

        // ---------------- the same through Constraint with ff_tokens enabled
        let caps = InferenceCapabilities { ff_tokens: true, ..Default::default() };
        let fc = match factory_ext(&vocab, &[], caps, None) {
            Ok(f) => f,
            Err(_) => return Ok(()),
        };
        let tp = match fc.create_parser(case.g.top()) {
            Ok(p) => p,
            Err(_) => return Ok(()),
        };
        let mut c = Constraint::new(tp);
        let mut twin = matcher(&ft, &case.g);
        let mut hist: Vec<u32> = vec![];
        for st in &case.walk {
            let hist0 = hist.clone();
            let tag = |x: String| format!("grammar {} via Constraint(ff_tokens) after tokens {:?}: {}", gtxt, hist0, x);
            let res = match c.compute_mask() {
                Ok(r) => r.clone(),
                Err(e) => {
                    if is_limit_error(&e.to_string()) {
                        return Ok(());
                    }
                    // errors of the sampling loop are C18's business
                    break;
                }
            };
            if res.is_stop() {
                break;
            }
            let sampled = if let Some(mask) = &res.sample_mask {
                let ids = mask_ids(mask, n);
                let acc = ids.iter().any(|t| vocab.is_eos(*t));
                match choose(&ids, &vocab, st, acc) {
                    Some(t) => Some(t),
                    None => break,
                }
            } else {
                None
            };
            if let Some(t) = sampled {
                if !vocab.is_regular(t) {
                    break;
                }
            }
            let cr = match c.commit_token(sampled) {
                Ok(r) => r,
                Err(e) => {
                    if is_limit_error(&e.to_string()) {
                        return Ok(());
                    }
                    return ctx.fail("C13/constraint-commit-failed", || tag(format!("commit_token({:?}) failed: {}", sampled, short_err(&e.to_string()))));
                }
            };
            if cr.backtrack != 0 {
                ctx.class("constraint_backtrack(skipped)");
                break;
            }
            ctx.eval(1);
            let mut it = cr.ff_tokens.iter();
            if let Some(s) = sampled {
                if it.next() != Some(&s) {
                    return ctx.fail("C13/constraint-result-does-not-start-with-sampled-token", || tag(format!("sampled {} but result tokens {:?}", s, cr.ff_tokens)));
                }
                let mut dead = false;
                for &b in vocab.bytes(s) {
                    if twin.consume_token(b as u32).is_err() {
                        dead = true;
                        break;
                    }
                }
                if dead {
                    break;
                }
                hist.push(s);
            }
            let forced: Vec<u32> = it.cloned().collect();
            if !forced.is_empty() {
                ctx.class("constraint_ff_batches");
                let fb = vocab.trie().decode_raw(&forced);
                if fb.contains(&0xFF) {
                    break;
                }
                match check_forced_on_twin(&twin, &fb, ctx, &tag)? {
                    Some(t2) => twin = t2,
                    None => return Ok(()),
                }
                hist.extend(forced);
            }
            if twin.is_stopped() {
                break;
            }
        }
        let _ = frac(0, 1);
        Ok(())
    }
}
