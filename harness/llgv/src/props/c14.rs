//! C14 — clones are independent and results do not depend on scheduling.

use crate::engine::{factory, is_limit_error, mask_words, matcher, GrammarSpec};
use crate::runner::{Ctx, Prop, Tier, R};
use crate::util::{frac, truncate_str, Fnv};
use crate::vocab::{Vocab, VocabSpec};
use crate::walk::{choose, mask_ids, step_strategy, steps, Step};
use llguidance::{Matcher, ParserFactory};
use proptest::prelude::*;
use serde::{Deserialize, Serialize};
use std::sync::{Arc, Barrier};

#[derive(Clone, Debug, Serialize, Deserialize, PartialEq)]
pub enum Act {
    Commit(Step),
    Mask,
    Validate(u16, u16),
    Rollback(u16),
    FfBytes,
    Accepting,
}

#[derive(Clone, Debug, Serialize, Deserialize)]
pub enum Event {
    /// new engine cloned from engine `src` (index modulo the number of engines so far)
    Clone { src: u8, deep: bool },
    /// engine `who` (modulo) performs `act`
    Do { who: u8, act: Act },
}

#[derive(Clone, Debug, Serialize, Deserialize)]
pub struct Case {
    pub g: GrammarSpec,
    pub vocab: VocabSpec,
    pub base: Vec<Step>,
    pub events: Vec<Event>,
    /// two scripts of three acts each, all 20 interleavings are run
    pub pair: (Vec<Act>, Vec<Act>),
    /// number of threads for the real-thread part
    pub threads: u8,
}

pub struct C14;

fn act_strategy() -> impl Strategy<Value = Act> {
    prop_oneof![
        6 => step_strategy().prop_map(Act::Commit),
        3 => Just(Act::Mask),
        2 => any::<(u16, u16)>().prop_map(|(a, b)| Act::Validate(a, b)),
        1 => any::<u16>().prop_map(Act::Rollback),
        1 => Just(Act::FfBytes),
        1 => Just(Act::Accepting),
    ]
}

/// grammars whose lexers keep creating new states (regex heavy), so that shallow clones
/// really share a growing lexer table
fn lexer_heavy_grammar() -> BoxedStrategy<GrammarSpec> {
    prop_oneof![
        Just(GrammarSpec::Lark("start: item (\",\" item)*\nitem: NAME \"=\" NUM | STR\nNAME: /[a-z][a-z0-9_]{0,12}/\nNUM: /-?[0-9]{1,8}(\\.[0-9]{1,4})?/\nSTR: /\"[^\"\\\\]{0,20}\"/\n".into())),
        Just(GrammarSpec::Regex("([a-f0-9]{2}:){3,7}[a-f0-9]{2}|[A-Z][a-z]{1,9}( [A-Z][a-z]{1,9}){0,3}".into())),
        Just(GrammarSpec::Json(serde_json::json!({"type":"object","properties":{"id":{"type":"string","format":"uuid"},"when":{"type":"string","format":"date-time"},"n":{"type":"number","minimum":-3.5,"maximum":120.25}},"required":["id","when","n"],"additionalProperties":{"type":"string","pattern":"^[a-z]{1,8}$"}}))),
        Just(GrammarSpec::Json(serde_json::json!({"type":"array","items":{"type":"integer","minimum":17,"maximum":4211},"maxItems":6}))),
    ]
    .boxed()
}

struct Eng {
    m: Matcher,
    tokens: Vec<u32>,
}

/// a private engine: own factory, own lexer, replaying the tokens
fn private(vocab: &Vocab, g: &GrammarSpec, tokens: &[u32]) -> Option<Matcher> {
    let f = factory(vocab);
    let mut m = matcher(&f, g);
    for &t in tokens {
        m.consume_token(t).ok()?;
    }
    Some(m)
}

#[derive(Debug, PartialEq, Clone)]
enum Out {
    None,
    Mask(Option<Vec<u32>>),
    Count(Option<usize>),
    Bytes(Vec<u8>),
    Flag(Option<bool>),
    Committed(u32),
    Failed,
}

/// Resolve an abstract act against the *private* engine into a concrete one (token chosen)
#[derive(Debug, Clone, PartialEq)]
enum Concrete {
    Commit(u32),
    Mask,
    Validate(Vec<u32>),
    Rollback(usize),
    FfBytes,
    Accepting,
    Skip,
}

/// Why does engine `e` differ from its private twin?  `Some(Ok(()))`: no verdict (dead-end state, the
/// business of C03); `Some(Err(key))`: a known finding's key; `None`: unexplained.
fn explain(e_err: Option<String>, family_errs: &[Option<String>], can_rollback: bool) -> Option<Result<(), String>> {
    let err = e_err?;
    // an empty mask in a non-accepting state latches NoExtensionBias; whether such states are reachable is C03's question
    if err.contains("NoExtensionBias") {
        return Some(Ok(()));
    }
    if can_rollback {
        return None;
    }
    if let Some(k) = crate::engine::hidden_stop_panic(&err) {
        return Some(Err(format!("C14/{}", k)));
    }
    if err.contains("PoisonError") {
        // the panic happened in a sibling that shares the lexer tables and poisoned their mutex
        for o in family_errs.iter().flatten() {
            if let Some(k) = crate::engine::hidden_stop_panic(o) {
                return Some(Err(format!("C14/{}", k)));
            }
        }
    }
    None
}

/// clone()/deep_clone() lock the shared lexer tables outside the engine's panic guard
fn guarded_clone(m: &Matcher, deep: bool) -> Result<Matcher, String> {
    std::panic::catch_unwind(std::panic::AssertUnwindSafe(|| if deep { m.deep_clone() } else { m.clone() })).map_err(|e| {
        e.downcast_ref::<String>().cloned().or_else(|| e.downcast_ref::<&str>().map(|s| s.to_string())).unwrap_or_else(|| "non-string panic".into())
    })
}

fn concretise(act: &Act, priv_m: &mut Matcher, tokens: &[u32], vocab: &Vocab, can_rollback: bool) -> Concrete {
    let n = vocab.len();
    match act {
        Act::Commit(st) => {
            if priv_m.is_stopped() {
                return Concrete::Skip;
            }
            let acc = priv_m.is_accepting().unwrap_or(false);
            match priv_m.compute_mask() {
                Ok(mask) => match choose(&mask_ids(&mask, n), vocab, st, acc) {
                    Some(t) => Concrete::Commit(t),
                    None => Concrete::Skip,
                },
                Err(_) => Concrete::Skip,
            }
        }
        Act::Mask => {
            if priv_m.is_stopped() {
                Concrete::Skip
            } else {
                Concrete::Mask
            }
        }
        Act::Validate(a, b) => {
            let mut seq = vec![];
            for j in 0..(1 + frac(*a, 4)) {
                seq.push(frac(b.wrapping_mul(31).wrapping_add(j as u16 * 7919), n) as u32);
            }
            Concrete::Validate(seq)
        }
        Act::Rollback(fr) => {
            // rollback is documented as unsupported with stop= / max_tokens= lexemes
            if tokens.is_empty() || !can_rollback {
                Concrete::Skip
            } else {
                Concrete::Rollback(1 + frac(*fr, tokens.len()))
            }
        }
        Act::FfBytes => {
            if priv_m.is_stopped() {
                Concrete::Skip
            } else {
                Concrete::FfBytes
            }
        }
        Act::Accepting => {
            if priv_m.is_stopped() {
                Concrete::Skip
            } else {
                Concrete::Accepting
            }
        }
    }
}

fn perform(c: &Concrete, m: &mut Matcher, tokens: &mut Vec<u32>, n: usize) -> Out {
    match c {
        Concrete::Skip => Out::None,
        Concrete::Commit(t) => {
            if m.consume_token(*t).is_ok() {
                tokens.push(*t);
                Out::Committed(*t)
            } else {
                Out::Failed
            }
        }
        Concrete::Mask => Out::Mask(m.compute_mask().ok().map(|x| mask_words(&x, n))),
        Concrete::Validate(seq) => Out::Count(m.validate_tokens(seq).ok()),
        Concrete::Rollback(k) => {
            if m.rollback(*k).is_ok() {
                tokens.truncate(tokens.len() - k);
                Out::None
            } else {
                Out::Failed
            }
        }
        Concrete::FfBytes => Out::Bytes(m.compute_ff_bytes()),
        Concrete::Accepting => Out::Flag(m.is_accepting().ok()),
    }
}

fn any_limit(ms: &[&Matcher]) -> bool {
    ms.iter().any(|m| m.get_error().is_some_and(|e| is_limit_error(&e)))
}

/// all interleavings of two sequences of lengths a and b, as bit vectors
fn interleavings(a: usize, b: usize) -> Vec<Vec<bool>> {
    fn go(a: usize, b: usize, cur: &mut Vec<bool>, out: &mut Vec<Vec<bool>>) {
        if a == 0 && b == 0 {
            out.push(cur.clone());
            return;
        }
        if a > 0 {
            cur.push(false);
            go(a - 1, b, cur, out);
            cur.pop();
        }
        if b > 0 {
            cur.push(true);
            go(a, b - 1, cur, out);
            cur.pop();
        }
    }
    let mut out = vec![];
    go(a, b, &mut vec![], &mut out);
    out
}

impl C14 {
    fn base_engine(&self, f: &ParserFactory, case: &Case, vocab: &Vocab) -> Option<Eng> {
        let mut m = matcher(f, &case.g);
        if m.is_error() {
            return None;
        }
        let n = vocab.len();
        let mut tokens = vec![];
        for st in &case.base {
            if m.is_stopped() {
                break;
            }
            let acc = m.is_accepting().unwrap_or(false);
            let mask = m.compute_mask().ok()?;
            let t = choose(&mask_ids(&mask, n), vocab, st, acc)?;
            if vocab.is_eos(t) {
                break;
            }
            m.consume_token(t).ok()?;
            tokens.push(t);
        }
        if m.is_error() {
            return None;
        }
        Some(Eng { m, tokens })
    }
}

impl Prop for C14 {
    type Case = Case;
    const ID: &'static str = "C14";
    fn rule(&self) -> String {
        "case = (grammar incl. lexer-heavy ones, vocabulary, base history, event list creating 2..16 engines by clone()/deep_clone() from any \
         earlier engine and interleaving their acts (commit, mask, validate, rollback, forced bytes, accepting), a pair of 3-act scripts whose 20 \
         interleavings are all executed, and a real-thread run with every clone on its own OS thread behind a barrier); oracle = a private engine \
         (own factory) replaying that clone's net tokens and performing the same act; evaluation = one act compared; non-trivial = case with >= 2 \
         shallow clones that committed different tokens after the clone point; distinct by hash of the case"
            .into()
    }
    fn assumptions(&self) -> Vec<String> {
        vec![
            "owned schedules are at API-call granularity; real-thread schedules are whatever the OS produces (sampled)".into(),
            "llg_par_compute_mask is exercised by the C17 harness and compared there against sequential masks".into(),
        ]
    }
    fn cases(&self, tier: Tier) -> u32 {
        tier.pick(120, 1200)
    }
    fn strategy(&self, tier: Tier) -> BoxedStrategy<Case> {
        let g = prop_oneof![2 => lexer_heavy_grammar(), 3 => crate::gen::any_grammar_ext()];
        g.prop_flat_map(move |g| {
            let ev = prop_oneof![
                1 => (any::<u8>(), any::<bool>()).prop_map(|(src, deep)| Event::Clone { src, deep }),
                5 => (any::<u8>(), act_strategy()).prop_map(|(who, act)| Event::Do { who, act }),
            ];
            (
                Just(g.clone()),
                crate::props::c01::vocab_for(g, tier),
                steps(8),
                proptest::collection::vec(ev, 6..60),
                (proptest::collection::vec(act_strategy(), 3..=3), proptest::collection::vec(act_strategy(), 3..=3)),
                2u8..=16,
            )
        })
        .prop_map(|(g, vocab, base, events, pair, threads)| Case { g, vocab, base, events, pair, threads })
        .boxed()
    }

    fn run(&self, case: &Case, ctx: &mut Ctx) -> R {
        let vocab = match case.vocab.build() {
            Ok(v) => v,
            Err(_) => return Ok(()),
        };
        let n = vocab.len();
        let can_rollback = crate::gen::supports_rollback(&case.g);
        // a known hidden-stop panic seen anywhere in this case: shallow clones of `base` share its lexer tables, so the
        // poisoned mutex outlives the clone that panicked
        let mut seen_known_panic: Option<String> = None;
        let f = factory(&vocab);
        let base = match self.base_engine(&f, case, &vocab) {
            Some(b) => b,
            None => {
                ctx.class("compile_error_or_dead_base");
                return Ok(());
            }
        };
        let gtxt = truncate_str(&case.g.text(), 300);
        let case_hash = Fnv::new().str(&serde_json::to_string(case).unwrap_or_default()).finish();

        // ---------- (1) owned random schedule over a tree of clones
        let mut engs: Vec<Eng> = vec![Eng { m: base.m.clone(), tokens: base.tokens.clone() }];
        let mut shallow_diverged = std::collections::HashSet::new();
        let mut log: Vec<String> = vec![];
        for ev in &case.events {
            match ev {
                Event::Clone { src, deep } => {
                    if engs.len() >= 16 {
                        continue;
                    }
                    let s = *src as usize % engs.len();
                    let m2 = match guarded_clone(&engs[s].m, *deep) {
                        Ok(m) => m,
                        Err(msg) => {
                            let mut errs: Vec<Option<String>> = engs.iter().map(|o| o.m.get_error()).collect();
                            errs.push(seen_known_panic.clone());
                            let key = match explain(Some(msg.clone()), &errs, can_rollback) {
                                Some(Err(k)) => k,
                                _ => "C14/clone-panicked".to_string(),
                            };
                            return ctx.fail(&key, || format!("grammar {} base tokens {:?} schedule {:?}: {}(e{}) panicked: {}", gtxt, base.tokens, log, if *deep { "deep_clone" } else { "clone" }, s, msg));
                        }
                    };
                    let t2 = engs[s].tokens.clone();
                    log.push(format!("e{}={}(e{})", engs.len(), if *deep { "deep_clone" } else { "clone" }, s));
                    engs.push(Eng { m: m2, tokens: t2 });
                }
                Event::Do { who, act } => {
                    let w = *who as usize % engs.len();
                    let mut pm = match private(&vocab, &case.g, &engs[w].tokens) {
                        Some(p) => p,
                        None => return Ok(()),
                    };
                    let c = concretise(act, &mut pm, &engs[w].tokens, &vocab, can_rollback);
                    if c == Concrete::Skip {
                        continue;
                    }
                    // the private engine was possibly touched by concretise(): rebuild for a clean run
                    let mut pm = match private(&vocab, &case.g, &engs[w].tokens) {
                        Some(p) => p,
                        None => return Ok(()),
                    };
                    let mut ptoks = engs[w].tokens.clone();
                    let want = perform(&c, &mut pm, &mut ptoks, n);
                    let e = &mut engs[w];
                    let got = perform(&c, &mut e.m, &mut e.tokens, n);
                    if let Some(er) = e.m.get_error() {
                        if crate::engine::hidden_stop_panic(&er).is_some() {
                            seen_known_panic = Some(er);
                        }
                    }
                    log.push(format!("e{}:{:?}", w, c));
                    ctx.eval(1);
                    if any_limit(&[&pm, &e.m]) {
                        ctx.class("engine_limit");
                        return Ok(());
                    }
                    if got != want {
                        let mut errs: Vec<Option<String>> = engs.iter().map(|o| o.m.get_error()).collect();
                        errs.push(seen_known_panic.clone());
                        let k = match explain(errs[w].clone(), &errs, can_rollback) {
                            Some(Ok(())) => {
                                ctx.class("dead_end_state(no verdict)");
                                return Ok(());
                            }
                            Some(Err(k)) => k,
                            None => "C14/clone-differs-from-private-engine".to_string(),
                        };
                        let e = &engs[w];
                        return ctx.fail(&k, || {
                            format!("grammar {} base tokens {:?} schedule {:?}: engine e{} returned {:?}, a private engine with the same history returns {:?} (engine error: {:?})", gtxt, base.tokens, log, w, short_out(&got), short_out(&want), e.m.get_error().map(|x| crate::engine::short_err(&x)))
                        });
                    }
                    if let Concrete::Commit(_) = c {
                        if w > 0 {
                            shallow_diverged.insert(w);
                        }
                    }
                }
            }
        }
        if shallow_diverged.len() >= 2 {
            ctx.nontrivial(case_hash);
            ctx.class("cases_with_>=2_diverged_clones");
        }

        // ---------- (2) all 20 interleavings of two 3-act scripts on two shallow clones
        let scripts = [&case.pair.0, &case.pair.1];
        for il in interleavings(3, 3) {
            let mut pair = [
                Eng { m: base.m.clone(), tokens: base.tokens.clone() },
                Eng { m: base.m.clone(), tokens: base.tokens.clone() },
            ];
            let mut idx = [0usize, 0usize];
            for &which in &il {
                let w = which as usize;
                let act = &scripts[w][idx[w]];
                idx[w] += 1;
                let mut pm = match private(&vocab, &case.g, &pair[w].tokens) {
                    Some(p) => p,
                    None => return Ok(()),
                };
                let c = concretise(act, &mut pm, &pair[w].tokens, &vocab, can_rollback);
                if c == Concrete::Skip {
                    continue;
                }
                let mut pm = match private(&vocab, &case.g, &pair[w].tokens) {
                    Some(p) => p,
                    None => return Ok(()),
                };
                let mut ptoks = pair[w].tokens.clone();
                let want = perform(&c, &mut pm, &mut ptoks, n);
                let e = &mut pair[w];
                let got = perform(&c, &mut e.m, &mut e.tokens, n);
                if let Some(er) = e.m.get_error() {
                    if crate::engine::hidden_stop_panic(&er).is_some() {
                        seen_known_panic = Some(er);
                    }
                }
                ctx.eval(1);
                if any_limit(&[&pm, &e.m]) {
                    return Ok(());
                }
                if got != want {
                    let mut errs: Vec<Option<String>> = pair.iter().map(|o| o.m.get_error()).collect();
                    errs.push(seen_known_panic.clone());
                    let k = match explain(errs[w].clone(), &errs, can_rollback) {
                        Some(Ok(())) => {
                            ctx.class("dead_end_state(no verdict)");
                            return Ok(());
                        }
                        Some(Err(k)) => k,
                        None => "C14/interleaving-changes-result".to_string(),
                    };
                    let e = &pair[w];
                    return ctx.fail(&k, || {
                        format!("grammar {} base tokens {:?}: interleaving {:?} of scripts {:?}: clone {} returned {:?}, private engine {:?} (engine error: {:?})", gtxt, base.tokens, il, case.pair, w, short_out(&got), short_out(&want), e.m.get_error().map(|x| crate::engine::short_err(&x)))
                    });
                }
            }
        }
        ctx.class_n("exhaustive_interleavings", 20);

        // ---------- (3) real threads: concrete scripts are fixed beforehand on private engines
        let nthreads = case.threads as usize;
        let mut plans: Vec<(Vec<Concrete>, Vec<Out>)> = vec![];
        for k in 0..nthreads {
            let script: Vec<&Act> = case
                .events
                .iter()
                .filter_map(|e| match e {
                    Event::Do { who, act } if (*who as usize) % nthreads == k => Some(act),
                    _ => None,
                })
                .take(8)
                .collect();
            let mut toks = base.tokens.clone();
            let mut concs = vec![];
            let mut outs = vec![];
            for act in script {
                let mut pm = match private(&vocab, &case.g, &toks) {
                    Some(p) => p,
                    None => return Ok(()),
                };
                let c = concretise(act, &mut pm, &toks, &vocab, can_rollback);
                let mut pm = match private(&vocab, &case.g, &toks) {
                    Some(p) => p,
                    None => return Ok(()),
                };
                let o = perform(&c, &mut pm, &mut toks, n);
                if any_limit(&[&pm]) {
                    return Ok(());
                }
                concs.push(c);
                outs.push(o);
            }
            plans.push((concs, outs));
        }
        let reps = ctx.tier.pick(2, 6);
        for _ in 0..reps {
            let barrier = Arc::new(Barrier::new(nthreads));
            let mut handles = vec![];
            for (k, (concs, _)) in plans.iter().enumerate() {
                // odd threads get deep clones
                let mut m = match guarded_clone(&base.m, k % 3 == 2) {
                    Ok(m) => m,
                    Err(msg) => {
                        // a clone of an earlier repetition died of a known panic and poisoned the shared tables
                        if !can_rollback && msg.contains("PoisonError") {
                            ctx.class("base_poisoned_by_known_panic(no further repetitions)");
                            return Ok(());
                        }
                        return ctx.fail("C14/clone-panicked", || format!("grammar {} base tokens {:?}: cloning the base engine panicked: {}", gtxt, base.tokens, msg));
                    }
                };
                let mut toks = base.tokens.clone();
                let concs = concs.clone();
                let b = barrier.clone();
                handles.push(std::thread::spawn(move || {
                    b.wait();
                    let mut outs = vec![];
                    for c in &concs {
                        outs.push(perform(c, &mut m, &mut toks, n));
                    }
                    (outs, m.get_error())
                }));
            }
            let mut results: Vec<(Vec<Out>, Option<String>)> = vec![];
            for (k, h) in handles.into_iter().enumerate() {
                match h.join() {
                    Ok(x) => results.push(x),
                    Err(_) => {
                        return ctx.fail("C14/thread-panicked", || format!("grammar {}: clone thread {} panicked", gtxt, k));
                    }
                }
            }
            let mut errs: Vec<Option<String>> = results.iter().map(|r| r.1.clone()).collect();
            errs.push(seen_known_panic.clone());
            let mut known: Option<String> = None;
            for (k, (outs, err)) in results.iter().enumerate() {
                ctx.eval(outs.len() as u64);
                if err.as_ref().is_some_and(|e| is_limit_error(e)) {
                    continue;
                }
                if outs != &plans[k].1 {
                    let i = outs.iter().zip(&plans[k].1).position(|(a, b)| a != b).unwrap_or(0);
                    let key = match explain(err.clone(), &errs, can_rollback) {
                        Some(Ok(())) => {
                            ctx.class("dead_end_state(no verdict)");
                            continue;
                        }
                        Some(Err(k)) => k,
                        None => "C14/parallel-run-differs-from-private-engine".to_string(),
                    };
                    ctx.fail(&key, || {
                        format!("grammar {} base tokens {:?}: with {} threads, clone {} act #{} {:?} returned {:?}, private engine {:?} (engine error: {:?})", gtxt, base.tokens, nthreads, k, i, plans[k].0.get(i), short_out(&outs[i]), short_out(&plans[k].1[i]), err.as_ref().map(|x| crate::engine::short_err(x)))
                    })?;
                    known = Some(key);
                }
            }
            if known.is_some() {
                // the family is dead after a known panic: nothing more to learn from further repetitions
                return Ok(());
            }
            ctx.class("thread_runs");
        }
        Ok(())
    }
}

fn short_out(o: &Out) -> String {
    match o {
        Out::Mask(Some(w)) => format!("Mask(hash {:x}, {} bits)", Fnv::new().bytes(&w.iter().flat_map(|x| x.to_le_bytes()).collect::<Vec<u8>>()).finish(), w.iter().map(|x| x.count_ones()).sum::<u32>()),
        other => format!("{:?}", other),
    }
}
