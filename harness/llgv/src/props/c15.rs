//! C15 — grammar optimisation preserves the language.
//!
//! The grammar produced by the front end and the optimised grammar are obtained through the
//! public API (`GrammarInit::to_internal`, `Grammar::optimize`, `Grammar::to_string`), parsed
//! from their textual dump into the harness' own BNF and compared as *prefix languages of
//! terminal sequences* by a lock-step walk of two reference charts.  Symbols that carry a
//! capture, a token limit, a temperature or a sub-grammar link are wrapped in bracket
//! pseudo-terminals, so removing, duplicating or moving such a boundary changes the language.

use crate::cfg::{cfg_case, BSym, Bnf, ByteSet, Chart, Cmp, Cond, PExpr, Prod};
use crate::engine::GrammarSpec;
use crate::gen::{any_grammar, corpus_grammar};
use crate::runner::{Ctx, Prop, Tier, R};
use crate::util::{h_str, truncate_str};
use crate::walk::byte_vocab;
use llguidance::api::{GrammarInit, ParserLimits};
use proptest::prelude::*;
use serde::{Deserialize, Serialize};
use std::collections::{BTreeMap, HashMap};

#[derive(Clone, Debug, Serialize, Deserialize)]
pub struct Case {
    pub g: GrammarSpec,
}

pub struct C15;

#[derive(Debug, Clone)]
struct PRule {
    rhs: Vec<(String, Option<String>)>, // (symbol or [n], param expr text)
    cond: Option<String>,
}

#[derive(Debug, Clone, Default)]
struct PSym {
    rules: Vec<PRule>,
    props: String,
    parametric: bool,
    link: bool,
    lexeme: Option<u32>,
}

#[derive(Debug)]
struct Dump {
    syms: BTreeMap<String, PSym>,
    order: Vec<String>,
    n_nonterminals: usize,
}

fn parse_dump(txt: &str) -> Result<Dump, String> {
    let mut syms: BTreeMap<String, PSym> = BTreeMap::new();
    let mut order = vec![];
    let mut cur: Option<String> = None;
    let mut n_nt = 0;
    for line in txt.lines() {
        if line == "Grammar:" || line.trim().is_empty() {
            continue;
        }
        if let Some(r) = line.strip_prefix("stats:") {
            // "6 terminals; 14 non-terminals with ..."
            if let Some(p) = r.split(';').nth(1) {
                n_nt = p.trim().split(' ').next().and_then(|x| x.parse().ok()).unwrap_or(0);
            }
            continue;
        }
        if let Some(i) = line.find(" ==> ") {
            let name = line[..i].trim().to_string();
            let e = syms.entry(name.clone()).or_default();
            e.link = true;
            if !order.contains(&name) {
                order.push(name);
            }
            continue;
        }
        let i = line.find(" ⇦ ").ok_or_else(|| format!("unparsable line {:?}", line))?;
        let lhs_raw = line[..i].trim();
        let rest = &line[i + " ⇦ ".len()..];
        let name = if lhs_raw.is_empty() {
            cur.clone().ok_or("continuation without lhs")?
        } else {
            let (n, param) = match lhs_raw.strip_suffix("::_") {
                Some(n) => (n.to_string(), true),
                None => (lhs_raw.to_string(), false),
            };
            if n.contains(' ') {
                return Err(format!("symbol name with blank: {:?}", n));
            }
            let e = syms.entry(n.clone()).or_default();
            e.parametric |= param;
            if !order.contains(&n) {
                order.push(n.clone());
            }
            cur = Some(n.clone());
            n
        };
        // rhs ends at the first double blank
        let (rhs_s, tail) = match rest.find("  ") {
            Some(j) => (&rest[..j], rest[j..].trim()),
            None => (rest.trim_end(), ""),
        };
        let (cond, props) = if let Some(c) = tail.strip_prefix("%if ") {
            match c.find("  ") {
                Some(j) => (Some(c[..j].trim().to_string()), c[j..].trim().to_string()),
                None => (Some(c.trim().to_string()), String::new()),
            }
        } else {
            (None, tail.to_string())
        };
        let e = syms.get_mut(&name).unwrap();
        if !props.is_empty() {
            e.props = props;
        }
        if let Some(l) = rhs_s.strip_prefix("Some(LexemeIdx(") {
            // special symbol backed directly by a lexeme
            let n: u32 = l.trim_end_matches(')').parse().map_err(|_| format!("bad lexeme in {:?}", line))?;
            e.lexeme = Some(n);
            continue;
        }
        if rhs_s == "None" {
            continue;
        }
        let mut rhs = vec![];
        for tok in rhs_s.split(' ').filter(|t| !t.is_empty()) {
            if tok == "ϵ" {
                continue;
            }
            if tok.starts_with('[') && tok.ends_with(']') && tok[1..tok.len() - 1].chars().all(|c| c.is_ascii_digit()) {
                rhs.push((tok.to_string(), None));
            } else if let Some(k) = tok.rfind("::") {
                rhs.push((tok[..k].to_string(), Some(tok[k + 2..].to_string())));
            } else {
                rhs.push((tok.to_string(), None));
            }
        }
        e.rules.push(PRule { rhs, cond });
    }
    Ok(Dump { syms, order, n_nonterminals: n_nt })
}

fn parse_u64(s: &str) -> Option<u64> {
    let s = s.trim();
    if let Some(h) = s.strip_prefix("0x") {
        u64::from_str_radix(h, 16).ok()
    } else {
        s.parse().ok()
    }
}

fn parse_ref(s: &str) -> Option<(u8, u8)> {
    let s = s.trim();
    if s == "_" {
        return Some((0, 64));
    }
    let inner = s.strip_prefix('[')?.strip_suffix(']')?;
    let (a, b) = inner.split_once(':')?;
    Some((a.trim().parse().ok()?, b.trim().parse().ok()?))
}

fn parse_pexpr(s: &str) -> Option<PExpr> {
    let s = s.trim();
    if s == "_" {
        return Some(PExpr::SelfRef);
    }
    if let Some(v) = parse_u64(s) {
        return Some(PExpr::Const(v));
    }
    let (f, arg) = s.split_once('(')?;
    let arg = arg.strip_suffix(')')?;
    Some(match f {
        "set_bit" => PExpr::SetBit(arg.trim().parse().ok()?),
        "clear_bit" => PExpr::ClearBit(arg.trim().parse().ok()?),
        "bit_or" => PExpr::BitOr(parse_u64(arg)?),
        "bit_and" => PExpr::BitAnd(parse_u64(arg)?),
        "incr" => {
            let (x, y) = parse_ref(arg)?;
            PExpr::Incr(x, y)
        }
        "decr" => {
            let (x, y) = parse_ref(arg)?;
            PExpr::Decr(x, y)
        }
        _ => return None,
    })
}

/// split "a, b" at the top-level comma
fn split_args(s: &str) -> Vec<&str> {
    let mut depth = 0;
    let mut out = vec![];
    let mut st = 0;
    for (i, c) in s.char_indices() {
        match c {
            '(' | '[' => depth += 1,
            ')' | ']' => depth -= 1,
            ',' if depth == 0 => {
                out.push(s[st..i].trim());
                st = i + 1;
            }
            _ => {}
        }
    }
    out.push(s[st..].trim());
    out
}

fn parse_cond(s: &str) -> Option<Cond> {
    let s = s.trim();
    if s == "true" {
        return Some(Cond::True);
    }
    let (f, arg) = s.split_once('(')?;
    let arg = arg.strip_suffix(')')?;
    let args = split_args(arg);
    let cmp = |n: &str| match n {
        "eq" => Some(Cmp::Eq),
        "ne" => Some(Cmp::Ne),
        "lt" => Some(Cmp::Lt),
        "le" => Some(Cmp::Le),
        "gt" => Some(Cmp::Gt),
        "ge" => Some(Cmp::Ge),
        _ => None,
    };
    Some(match f {
        "bit_clear" => Cond::BitClear(args.first()?.parse().ok()?),
        "bit_set" => Cond::BitSet(args.first()?.parse().ok()?),
        "is_ones" => {
            let (x, y) = parse_ref(args.first()?)?;
            Cond::IsOnes(x, y)
        }
        "is_zeros" => {
            let (x, y) = parse_ref(args.first()?)?;
            Cond::IsZeros(x, y)
        }
        "and" => Cond::And(Box::new(parse_cond(args.first()?)?), Box::new(parse_cond(args.get(1)?)?)),
        "or" => Cond::Or(Box::new(parse_cond(args.first()?)?), Box::new(parse_cond(args.get(1)?)?)),
        "not" => Cond::Not(Box::new(parse_cond(args.first()?)?)),
        _ => {
            if let Some(c) = f.strip_prefix("bit_count_").and_then(cmp) {
                let (x, y) = parse_ref(args.first()?)?;
                Cond::BitCount(c, x, y, parse_u64(args.get(1)?)?)
            } else {
                let c = cmp(f)?;
                let (x, y) = parse_ref(args.first()?)?;
                Cond::Cmp(c, x, y, parse_u64(args.get(1)?)?)
            }
        }
    })
}

struct Built {
    bnf: Bnf,
    specials: Vec<String>,
}

/// `term_ids` is shared between the two grammars so that terminals and brackets get the same ids
fn build(d: &Dump, term_ids: &mut HashMap<String, u8>) -> Result<Built, String> {
    let mut nt_ids: HashMap<&str, usize> = HashMap::new();
    for (i, n) in d.order.iter().enumerate() {
        nt_ids.insert(n.as_str(), i);
    }
    // a symbol that is used but has no entry of its own in the dump is a symbol without rules (nothing derives from
    // it): it takes part in the comparison as such, it does not make the dump unreadable
    let mut names: Vec<String> = d.order.clone();
    for n in &d.order {
        for r in &d.syms[n].rules {
            for (sym, _) in &r.rhs {
                if !sym.starts_with('[') && !nt_ids.contains_key(sym.as_str()) {
                    nt_ids.insert(sym.as_str(), names.len());
                    names.push(sym.clone());
                }
            }
        }
    }
    let tid = |name: String, term_ids: &mut HashMap<String, u8>| -> Result<u8, String> {
        if let Some(t) = term_ids.get(&name) {
            return Ok(*t);
        }
        if term_ids.len() >= 250 {
            return Err("too many terminals".into());
        }
        let t = term_ids.len() as u8;
        term_ids.insert(name, t);
        Ok(t)
    };
    let start = *nt_ids.get("start").ok_or("no start symbol")?;
    let mut prods = vec![];
    let mut specials = vec![];
    for n in &d.order {
        let s = &d.syms[n];
        let lhs = nt_ids[n.as_str()];
        let special = n != "start" && (!s.props.is_empty() || s.link);
        if special {
            specials.push(format!("{}{}{}", n, if s.link { " LINK" } else { "" }, if s.props.is_empty() { String::new() } else { format!(" {}", s.props) }));
        }
        let open = if special { Some(tid(format!("<{}", n), term_ids)?) } else { None };
        let close = if special { Some(tid(format!(">{}", n), term_ids)?) } else { None };
        let wrap = |body: Vec<BSym>| -> Vec<BSym> {
            let mut v = vec![];
            if let Some(o) = open {
                v.push(BSym::Bytes(ByteSet::single(o)));
            }
            v.extend(body);
            if let Some(c) = close {
                v.push(BSym::Bytes(ByteSet::single(c)));
            }
            v
        };
        if let Some(l) = s.lexeme {
            let t = tid(format!("[{}]", l), term_ids)?;
            prods.push(Prod { lhs, rhs: wrap(vec![BSym::Bytes(ByteSet::single(t))]), cond: Cond::True });
        }
        if s.rules.is_empty() && s.lexeme.is_none() && s.link {
            // a sub-grammar link without local rules: opaque body
            prods.push(Prod { lhs, rhs: wrap(vec![]), cond: Cond::True });
        }
        for r in &s.rules {
            let mut body = vec![];
            for (sym, pe) in &r.rhs {
                if sym.starts_with('[') {
                    body.push(BSym::Bytes(ByteSet::single(tid(sym.clone(), term_ids)?)));
                } else {
                    let id = *nt_ids.get(sym.as_str()).ok_or_else(|| format!("unknown symbol {:?}", sym))?;
                    let pe = match pe {
                        None => PExpr::Const(0),
                        Some(p) => parse_pexpr(p).ok_or_else(|| format!("unparsable parameter {:?}", p))?,
                    };
                    body.push(BSym::Nt(id, pe));
                }
            }
            let cond = match &r.cond {
                None => Cond::True,
                Some(c) => parse_cond(c).ok_or_else(|| format!("unparsable condition {:?}", c))?,
            };
            prods.push(Prod { lhs, rhs: wrap(body), cond });
        }
    }
    specials.sort();
    Ok(Built {
        bnf: Bnf { prods, n_nts: names.len(), start, start_param: 0, names },
        specials,
    })
}

/// special symbols (capture / limit / temperature / sub-grammar link) reachable from `start`
fn reachable_specials(d: &Dump) -> Vec<String> {
    let mut seen: std::collections::BTreeSet<&str> = std::collections::BTreeSet::new();
    let mut stack = vec!["start"];
    seen.insert("start");
    while let Some(n) = stack.pop() {
        if let Some(s) = d.syms.get(n) {
            for r in &s.rules {
                for (x, _) in &r.rhs {
                    if !x.starts_with('[') && seen.insert(x.as_str()) {
                        stack.push(x.as_str());
                    }
                }
            }
        }
    }
    let mut v: Vec<String> = seen
        .iter()
        .filter(|n| **n != "start")
        .filter_map(|n| d.syms.get(*n).map(|s| (n, s)))
        .filter(|(_, s)| !s.props.is_empty() || s.link)
        .map(|(n, s)| format!("{}{} {}", n, if s.link { " LINK" } else { "" }, s.props))
        .collect();
    v.sort();
    v
}

/// lock-step walk of both charts; returns the first differing prefix
fn compare(a: &mut Chart, b: &mut Chart, path: &mut Vec<u8>, depth: usize, budget: &mut usize, ctx: &mut Ctx) -> Option<(Vec<u8>, String)> {
    if *budget == 0 {
        return None;
    }
    *budget -= 1;
    ctx.eval(1);
    if a.accepting() != b.accepting() {
        return Some((path.clone(), format!("complete before={} after={}", a.accepting(), b.accepting())));
    }
    let (na, nb) = (a.next_bytes(), b.next_bytes());
    if na != nb {
        let mut d = vec![];
        for t in 0..=255u8 {
            if na.has(t) != nb.has(t) {
                d.push((t, na.has(t), nb.has(t)));
            }
        }
        return Some((path.clone(), format!("next terminals differ (id, before, after): {:?}", d)));
    }
    if depth == 0 {
        return None;
    }
    for t in 0..=255u8 {
        if na.has(t) {
            let (pa, pb) = (a.push(t), b.push(t));
            if pa != pb {
                return Some((path.clone(), format!("terminal {} continues before={} after={}", t, pa, pb)));
            }
            if pa {
                path.push(t);
                let r = compare(a, b, path, depth - 1, budget, ctx);
                path.pop();
                a.pop();
                b.pop();
                if r.is_some() {
                    return r;
                }
            }
        }
    }
    None
}

fn captured_grammar() -> BoxedStrategy<GrammarSpec> {
    // random CFGs with capture attributes and nested %json / %lark atoms sprinkled in
    (cfg_case(), any::<u8>(), 0usize..4)
        .prop_map(|(c, which, extra)| {
            let (g, _) = c.build();
            let mut t = match g {
                GrammarSpec::Lark(t) => t,
                other => return other,
            };
            for k in 1..6 {
                if which & (1 << k) != 0 {
                    t = t.replace(&format!("\nr{}: ", k), &format!("\nr{}[capture]: ", k));
                }
            }
            match extra {
                1 => t.push_str("rx: %json {\"type\":\"integer\"}\n"),
                2 => t = t.replacen("start: ", "start: inner | ", 1) + "inner[capture=\"cap\"]: %json {\"enum\":[\"a\",1]} | %lark { start: \"q\" B\nB: /b+/ }\n",
                _ => {}
            }
            GrammarSpec::Lark(t)
        })
        .boxed()
}

impl Prop for C15 {
    type Case = Case;
    const ID: &'static str = "C15";
    fn rule(&self) -> String {
        "case = grammar from every generator (regex, random CFG incl. parametric templates, CFG with capture attributes and nested %json/%lark, \
         JSON schemas, corpus); the front-end grammar and its optimised form are dumped via Grammar::to_string, parsed into the harness BNF \
         (terminals = lexeme ids, special symbols wrapped in bracket pseudo-terminals, parametric symbols as (symbol, u64) pairs) and compared \
         by a lock-step walk of two reference charts over all terminal sequences up to length 7 (node budget); the sets of special symbols \
         must be equal. evaluation = one prefix compared (complete flag + set of next terminals); non-trivial = optimisation removed >= 2 \
         non-terminals; distinct by grammar text"
            .into()
    }
    fn assumptions(&self) -> Vec<String> {
        vec![
            "depends on the textual dump format of Grammar::to_string; a dump that cannot be parsed is skipped and counted (must stay 0 for generated grammars)".into(),
            "terminal sequences are compared up to a length bound and node budget, not exhaustively".into(),
        ]
    }
    fn cases(&self, tier: Tier) -> u32 {
        tier.pick(150, 1500)
    }
    fn strategy(&self, _tier: Tier) -> BoxedStrategy<Case> {
        prop_oneof![3 => any_grammar(), 3 => captured_grammar(), 1 => corpus_grammar(), 2 => cfg_case().prop_map(|c| c.build().0)]
            .prop_map(|g| Case { g })
            .boxed()
    }
    fn run(&self, case: &Case, ctx: &mut Ctx) -> R {
        let v = byte_vocab();
        let init = GrammarInit::Serialized(case.g.top());
        let (g, _lex) = match llguidance::panic_utils::catch_unwind(std::panic::AssertUnwindSafe(|| init.to_internal(Some(v.env.clone()), ParserLimits::default()))) {
            Ok(x) => x,
            Err(_) => {
                ctx.class("compile_error");
                return Ok(());
            }
        };
        let before = g.to_string(None);
        let opt = g.optimize();
        let after = opt.to_string(None);
        let gtxt = truncate_str(&case.g.text(), 500);
        let (da, db) = match (parse_dump(&before), parse_dump(&after)) {
            (Ok(a), Ok(b)) => (a, b),
            (a, b) => {
                ctx.class("dump_unparsable(skipped)");
                if ctx.verbose {
                    eprintln!("{:?} {:?}", a.err(), b.err());
                }
                return Ok(());
            }
        };
        let mut term_ids: HashMap<String, u8> = HashMap::new();
        let (ba, bb) = match (build(&da, &mut term_ids), build(&db, &mut term_ids)) {
            (Ok(a), Ok(b)) => (a, b),
            (a, b) => {
                ctx.class("dump_unbuildable(skipped)");
                if ctx.verbose {
                    eprintln!("{:?} {:?}", a.err(), b.err());
                }
                return Ok(());
            }
        };
        ctx.class(&format!("grammar:{}", case.g.kind()));
        if da.n_nonterminals >= db.n_nonterminals + 2 {
            ctx.nontrivial(h_str(&case.g.text()));
        }
        if !ba.specials.is_empty() {
            ctx.class("has_special_symbols");
        }
        // special symbols that are reachable before must still exist afterwards (same name, same properties)
        ctx.eval(1);
        let (sa, sb) = (reachable_specials(&da), reachable_specials(&db));
        if sa != sb {
            return ctx.fail("C15/special-symbols-changed", || format!("grammar {}: reachable special symbols before {:?} after {:?}", gtxt, sa, sb));
        }
        let (aa, ab) = match (ba.bnf.analyse(), bb.bnf.analyse()) {
            (Some(a), Some(b)) => (a, b),
            _ => {
                ctx.class("reference_too_big");
                return Ok(());
            }
        };
        let mut ca = Chart::new(&aa);
        let mut cb = Chart::new(&ab);
        let mut budget = ctx.tier.pick(4000usize, 30000usize);
        let mut path = vec![];
        if let Some((p, why)) = compare(&mut ca, &mut cb, &mut path, 7, &mut budget, ctx) {
            let names: HashMap<u8, &String> = term_ids.iter().map(|(k, v)| (*v, k)).collect();
            let pretty: Vec<&str> = p.iter().map(|t| names.get(t).map(|s| s.as_str()).unwrap_or("?")).collect();
            return ctx.fail("C15/optimised-grammar-derives-different-terminal-sequences", || {
                format!("grammar {}: after the terminal sequence {:?}: {} (ids: {:?})\n--- before:\n{}\n--- after:\n{}", gtxt, pretty, why, term_ids, truncate_str(&before, 3000), truncate_str(&after, 3000))
            });
        }
        Ok(())
    }
}
