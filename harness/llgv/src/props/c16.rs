//! C16 — vocabulary handling (trie, token sets, tokenizer adapters) matches a naive model.

use crate::runner::{Ctx, Prop, Tier, R};
use crate::util::{truncate_str, esc, frac, Fnv, B};
use llguidance::toktrie::recognizer::{FunctionalRecognizer, StackRecognizer};
use llguidance::toktrie::{AnythingGoes, SimpleVob, TokRxInfo, TokTrie, TokenizerEnv};
use proptest::prelude::*;
use serde::{Deserialize, Serialize};
use serde_json::json;
use std::collections::BTreeSet;

// ------------------------------------------------------------------------------------------
// case types
// ------------------------------------------------------------------------------------------

#[derive(Clone, Debug, Serialize, Deserialize)]
pub enum VobOp {
    Allow(u16),
    Disallow(u16),
    Set(u16, bool),
    Range(u16, u16),
    Negate,
    SetAll(bool),
    /// binary ops with a second set built from the given bits
    Or(Vec<u16>),
    And(Vec<u16>),
    Sub(Vec<u16>),
    OrMinus(Vec<u16>, Vec<u16>),
    Grow(u16),
    Trim,
}

#[derive(Clone, Debug, Serialize, Deserialize)]
pub struct Dfa {
    /// n states; table[s] = list of (byte, target); bytes not listed are rejected
    pub table: Vec<Vec<(u8, u8)>>,
}

#[derive(Clone, Debug, Serialize, Deserialize)]
pub enum Case {
    Vob {
        size: usize,
        ops: Vec<VobOp>,
        /// spare capacity in bits (`alloc_with_capacity(size, size + cap)`, what `TokTrie::alloc_token_set` does with 1)
        #[serde(default)]
        cap: u8,
    },
    Trie { words: Vec<B>, eos: u16, dfa: Dfa, starts: Vec<B>, filter: Vec<u16>, texts: Vec<B> },
    HfJson { byte_level: bool, merges: Vec<(u16, u16)>, added: Vec<(String, bool)>, space_char: u8, texts: Vec<B> },
    TikToken { n: usize, holes: Vec<u16>, specials: u8, texts: Vec<B> },
}

pub struct C16;

// ------------------------------------------------------------------------------------------
// strategies
// ------------------------------------------------------------------------------------------

fn size_strategy() -> impl Strategy<Value = usize> {
    prop_oneof![
        Just(0usize), Just(1), Just(31), Just(32), Just(33), Just(63), Just(64), Just(65), Just(95), Just(96), Just(97), Just(128), Just(255), Just(256), Just(257),
        1usize..400
    ]
}

fn bits() -> impl Strategy<Value = Vec<u16>> {
    proptest::collection::vec(any::<u16>(), 0..12)
}

fn vob_op() -> impl Strategy<Value = VobOp> {
    prop_oneof![
        3 => any::<u16>().prop_map(VobOp::Allow),
        2 => any::<u16>().prop_map(VobOp::Disallow),
        2 => any::<(u16, bool)>().prop_map(|(a, b)| VobOp::Set(a, b)),
        4 => any::<(u16, u16)>().prop_map(|(a, b)| VobOp::Range(a, b)),
        2 => Just(VobOp::Negate),
        1 => any::<bool>().prop_map(VobOp::SetAll),
        2 => bits().prop_map(VobOp::Or),
        2 => bits().prop_map(VobOp::And),
        2 => bits().prop_map(VobOp::Sub),
        1 => (bits(), bits()).prop_map(|(a, b)| VobOp::OrMinus(a, b)),
        1 => (0u16..70).prop_map(VobOp::Grow),
        1 => Just(VobOp::Trim),
    ]
}

fn word_strategy() -> impl Strategy<Value = B> {
    let alpha = prop_oneof![Just(b'a'), Just(b'b'), Just(b'c'), Just(b' '), Just(b'x'), Just(0u8), Just(0x80u8), Just(0xC3u8), Just(0xA9u8), Just(0xFEu8), Just(b'<'), Just(b'>')];
    prop_oneof![
        8 => proptest::collection::vec(alpha.clone(), 1..6).prop_map(B),
        1 => Just(B(vec![])),
        1 => proptest::collection::vec(alpha.clone(), 1..3).prop_map(|mut v| { v.insert(0, 0xFF); B(v) }),
        1 => (1usize..290, alpha.clone()).prop_map(|(n, c)| B(vec![c; n])),
        1 => any::<u8>().prop_map(|b| B(vec![b])),
        1 => Just(B(vec![0xFF])),
    ]
}

fn trie_words() -> impl Strategy<Value = Vec<B>> {
    (proptest::collection::vec(word_strategy(), 0..120), proptest::bool::weighted(0.3), proptest::bool::weighted(0.3), 0usize..3).prop_map(|(mut w, full_bytes, chain, dups)| {
        if full_bytes {
            // 256-way fan-out at the root
            for b in 0..=255u8 {
                w.push(B(vec![b]));
            }
        }
        if chain {
            // deep chain: a, ab, abc, ...
            let mut cur = vec![];
            for i in 0..12u8 {
                cur.push(b'a' + (i % 3));
                w.push(B(cur.clone()));
            }
        }
        for k in 0..dups {
            if !w.is_empty() {
                let d = w[(k * 7) % w.len()].clone();
                w.push(d);
            }
        }
        if w.is_empty() {
            w.push(B(vec![b'a']));
        }
        w
    })
}

fn dfa_strategy() -> impl Strategy<Value = Dfa> {
    (2usize..8).prop_flat_map(|n| {
        let row = proptest::collection::vec(
            (prop_oneof![Just(b'a'), Just(b'b'), Just(b'c'), Just(b' '), Just(b'x'), Just(0u8), Just(0x80u8), Just(0xC3u8), Just(0xA9u8), Just(0xFEu8), Just(0xFFu8), Just(b'<'), any::<u8>()], 0u8..n as u8),
            0..10,
        );
        proptest::collection::vec(row, n..=n).prop_map(|table| Dfa { table })
    })
}

fn text_strategy() -> impl Strategy<Value = B> {
    proptest::collection::vec(
        prop_oneof![
            6 => prop_oneof![Just(b'a'), Just(b'b'), Just(b'c'), Just(b' '), Just(b'x'), Just(b'\n'), Just(b'e'), Just(b't'), Just(b'1'), Just(b'.')],
            2 => any::<u8>().prop_filter("marker", |b| *b != 0xFF),
            1 => Just(0xC3u8), 1 => Just(0xA9u8), 1 => Just(0xE2u8), 1 => Just(0x82u8), 1 => Just(0xACu8), 1 => Just(0xF0u8), 1 => Just(0x9Fu8),
        ],
        0..40,
    )
    .prop_map(B)
}

// ------------------------------------------------------------------------------------------
// reference pieces
// ------------------------------------------------------------------------------------------

struct RefDfa<'a>(&'a Dfa);

impl FunctionalRecognizer<u8> for RefDfa<'_> {
    fn initial(&self) -> u8 {
        0
    }
    fn try_append(&self, state: u8, byte: u8) -> Option<u8> {
        naive_step(self.0, state, byte)
    }
}

fn naive_step(d: &Dfa, s: u8, b: u8) -> Option<u8> {
    // first matching entry wins (the table is a function)
    d.table[s as usize].iter().find(|(x, _)| *x == b).map(|(_, t)| *t)
}

fn naive_accepts(d: &Dfa, bytes: &[u8]) -> bool {
    let mut s = 0u8;
    for &b in bytes {
        match naive_step(d, s, b) {
            Some(t) => s = t,
            None => return false,
        }
    }
    true
}

/// GPT-2 byte -> unicode table from its published definition
pub fn gpt2_byte_to_char() -> Vec<char> {
    let mut bs: Vec<u32> = ('!' as u32..='~' as u32).chain(0xA1..=0xAC).chain(0xAE..=0xFF).collect();
    let mut cs: Vec<u32> = bs.clone();
    let mut n = 0;
    for b in 0..256u32 {
        if !bs.contains(&b) {
            bs.push(b);
            cs.push(256 + n);
            n += 1;
        }
    }
    let mut out = vec![' '; 256];
    for (b, c) in bs.iter().zip(cs.iter()) {
        out[*b as usize] = char::from_u32(*c).unwrap();
    }
    out
}

fn model_bits(bits: &[u16], size: usize) -> BTreeSet<usize> {
    if size == 0 {
        return BTreeSet::new();
    }
    bits.iter().map(|b| frac(*b, size)).collect()
}

fn vob_from(set: &BTreeSet<usize>, size: usize) -> SimpleVob {
    let mut v = SimpleVob::alloc(size);
    for &i in set {
        v.allow_token(i as u32);
    }
    v
}

fn check_vob(v: &SimpleVob, model: &BTreeSet<usize>, size: usize, what: &str) -> Result<(), String> {
    if v.len() != size {
        return Err(format!("{}: len() = {} expected {}", what, v.len(), size));
    }
    for i in 0..size {
        if v.get(i) != model.contains(&i) {
            return Err(format!("{}: bit {} is {} expected {}", what, i, v.get(i), model.contains(&i)));
        }
    }
    // nothing at or above the size inside the storage words
    for (w, &d) in v.as_slice().iter().enumerate() {
        for b in 0..32 {
            let i = w * 32 + b;
            if i >= size && d & (1 << b) != 0 {
                return Err(format!("{}: bit {} >= size {} is set", what, i, size));
            }
        }
    }
    if v.num_set() != model.len() {
        return Err(format!("{}: num_set() = {} expected {}", what, v.num_set(), model.len()));
    }
    let lst: Vec<usize> = v.to_list().iter().map(|x| *x as usize).collect();
    let want: Vec<usize> = model.iter().cloned().collect();
    if lst != want {
        return Err(format!("{}: to_list() = {:?} expected {:?}", what, lst, want));
    }
    let mut unset = vec![];
    v.iter_unset_entries(|i| unset.push(i));
    let want_unset: Vec<usize> = (0..size).filter(|i| !model.contains(i)).collect();
    if unset != want_unset {
        return Err(format!("{}: iter_unset_entries differs", what));
    }
    let mut all = vec![];
    v.iter_entries(|b, i| all.push((b, i)));
    if all.len() != size || all.iter().any(|(b, i)| *b != model.contains(i)) {
        return Err(format!("{}: iter_entries differs", what));
    }
    if v.iter().map(|x| x as usize).collect::<Vec<_>>() != want {
        return Err(format!("{}: iter() differs", what));
    }
    if v.is_zero() != model.is_empty() {
        return Err(format!("{}: is_zero() = {}", what, v.is_zero()));
    }
    if v.first_bit_set() != model.iter().next().cloned() {
        return Err(format!("{}: first_bit_set() = {:?}", what, v.first_bit_set()));
    }
    let s = v.to_bin_string();
    if s.len() != size || s.chars().enumerate().any(|(i, c)| (c == '1') != model.contains(&i)) {
        return Err(format!("{}: to_bin_string differs", what));
    }
    Ok(())
}

// ------------------------------------------------------------------------------------------

impl C16 {
    fn run_vob(&self, size0: usize, ops: &[VobOp], cap: u8, ctx: &mut Ctx) -> R {
        let mut size = size0;
        let mut v = if cap == 0 { SimpleVob::alloc(size) } else { SimpleVob::alloc_with_capacity(size, size + cap as usize) };
        if cap > 0 {
            ctx.class("vob_with_spare_capacity");
        }
        let mut m: BTreeSet<usize> = BTreeSet::new();
        let mut log: Vec<String> = vec![];
        let touched_boundary = |i: usize| i % 32 == 0 || i % 32 == 31;
        let mut nontrivial = false;
        for op in ops {
            log.push(format!("{:?}", op));
            match op {
                VobOp::Allow(i) if size > 0 => {
                    let i = frac(*i, size);
                    v.allow_token(i as u32);
                    m.insert(i);
                    nontrivial |= touched_boundary(i);
                }
                VobOp::Disallow(i) if size > 0 => {
                    let i = frac(*i, size);
                    v.disallow_token(i as u32);
                    m.remove(&i);
                }
                VobOp::Set(i, b) if size > 0 => {
                    let i = frac(*i, size);
                    v.set(i, *b);
                    if *b {
                        m.insert(i);
                    } else {
                        m.remove(&i);
                    }
                }
                VobOp::Range(a, b) if size > 0 => {
                    let (a, b) = (frac(*a, size), frac(*b, size));
                    v.allow_range(a as u32..=b as u32);
                    for i in a..=b {
                        m.insert(i);
                    }
                    nontrivial |= a <= b && (a / 32 != b / 32 || touched_boundary(a) || touched_boundary(b));
                }
                VobOp::Negate => {
                    v = v.negated();
                    m = (0..size).filter(|i| !m.contains(i)).collect();
                    nontrivial |= size % 32 != 0;
                }
                VobOp::SetAll(b) => {
                    v.set_all(*b);
                    m = if *b { (0..size).collect() } else { BTreeSet::new() };
                }
                VobOp::Or(bits) => {
                    let o = model_bits(bits, size);
                    v.or(&vob_from(&o, size));
                    m.extend(o);
                }
                VobOp::And(bits) => {
                    let o = model_bits(bits, size);
                    let ov = vob_from(&o, size);
                    let z = v.and_is_zero(&ov);
                    let f = v.first_bit_set_here_and_in(&ov);
                    let inter: BTreeSet<usize> = m.intersection(&o).cloned().collect();
                    ctx.eval(1);
                    if z != inter.is_empty() || f != inter.iter().next().cloned() {
                        return ctx.fail("C16/vob-intersection-queries", || format!("size {} ops {:?}: and_is_zero={} first_bit_set_here_and_in={:?}, model intersection {:?}", size0, log, z, f, inter));
                    }
                    v.and(&ov);
                    m = inter;
                }
                VobOp::Sub(bits) => {
                    let o = model_bits(bits, size);
                    v.sub(&vob_from(&o, size));
                    m = m.difference(&o).cloned().collect();
                }
                VobOp::OrMinus(a, b) => {
                    let (oa, ob) = (model_bits(a, size), model_bits(b, size));
                    v.or_minus(&vob_from(&oa, size), &vob_from(&ob, size));
                    m.extend(oa.difference(&ob).cloned());
                }
                // resize() only grows beyond the allocated storage and trim_trailing_zeros() re-derives the
                // length from it: neither is meant for a set with spare capacity
                VobOp::Grow(_) | VobOp::Trim if cap > 0 => {
                    log.pop();
                    continue;
                }
                VobOp::Grow(d) => {
                    size += *d as usize;
                    v.resize(size);
                }
                VobOp::Trim => {
                    v.trim_trailing_zeros();
                    // documented effect: storage truncated to the last non-zero word, size = words * 32
                    let words = m.iter().next_back().map(|i| i / 32 + 1).unwrap_or(0);
                    if words < size.div_ceil(32) {
                        size = words * 32;
                    }
                }
                _ => {
                    log.pop();
                    continue;
                }
            }
            ctx.eval(1);
            if let Err(e) = check_vob(&v, &m, size, "after op") {
                return ctx.fail("C16/vob-differs-from-set-model", || format!("initial size {} ops {:?}: {}", size0, log, e));
            }
        }
        // logits / bytes views
        if size > 0 {
            let mut logits = vec![-1.0f32; size.div_ceil(32) * 32];
            v.apply_to(&mut logits);
            ctx.eval(1);
            for i in 0..size {
                if (logits[i] == 0.0) != m.contains(&i) {
                    return ctx.fail("C16/vob-apply-to-differs", || format!("size {} ops {:?}: logit {}", size0, log, i));
                }
            }
        }
        if nontrivial {
            ctx.nontrivial(Fnv::new().str(&format!("{}{:?}", size0, log)).finish());
            ctx.class("vob:touches_word_boundary");
        }
        ctx.class("kind:vob");
        Ok(())
    }

    #[allow(clippy::too_many_arguments)]
    fn run_trie(&self, words: &[B], eos: u16, dfa: &Dfa, starts: &[B], filter: &[u16], texts: &[B], ctx: &mut Ctx) -> R {
        let ws: Vec<Vec<u8>> = words.iter().map(|w| w.0.clone()).collect();
        let n = ws.len();
        let info = TokRxInfo::new(n as u32, frac(eos, n) as u32);
        let longest = ws.iter().map(|w| w.len()).max().unwrap_or(0);
        let trie = match std::panic::catch_unwind(|| TokTrie::from(&info, &ws)) {
            Ok(t) => t,
            Err(_) => {
                let key = if longest > 1024 { "C16/token-longer-than-1024-bytes-panics" } else { "C16/trie-construction-panicked" };
                return ctx.fail(key, || format!("TokTrie::from panicked on a vocabulary of {} tokens, longest {} bytes", n, longest));
            }
        };
        if longest >= 300 {
            ctx.class("trie:token_of_300_bytes_or_more");
        }
        let desc = || format!("vocabulary {:?}", words.iter().map(|w| truncate_str(&esc(&w.0), 60)).collect::<Vec<_>>());
        ctx.class("kind:trie");
        let has_dup = {
            let s: BTreeSet<&Vec<u8>> = ws.iter().filter(|w| !w.is_empty()).collect();
            s.len() < ws.iter().filter(|w| !w.is_empty()).count()
        };
        let depth4 = ws.iter().any(|w| w.len() >= 4 && (1..w.len()).filter(|k| ws.contains(&w[..*k].to_vec())).count() >= 3);
        if has_dup && depth4 {
            ctx.nontrivial(Fnv::new().str(&desc()).finish());
        }
        if has_dup {
            ctx.class("trie:duplicates");
        }
        // token <-> bytes
        if trie.vocab_size() != n {
            return ctx.fail("C16/vocab-size", || format!("{}: vocab_size {}", desc(), trie.vocab_size()));
        }
        for (i, w) in ws.iter().enumerate() {
            ctx.eval(1);
            if trie.token(i as u32) != &w[..] {
                return ctx.fail("C16/token-bytes", || format!("{}: token({}) = {:?}", desc(), i, esc(trie.token(i as u32))));
            }
            if !w.is_empty() {
                match trie.token_id(w) {
                    Some(t) if ws[t as usize] == *w => {}
                    other => return ctx.fail("C16/token-id-roundtrip", || format!("{}: token_id({:?}) = {:?}", desc(), esc(w), other)),
                }
                let special = w[0] == 0xFF;
                let want_len = if special { 3 + i.to_string().len() } else { w.len() };
                if trie.token_len(i as u32) != want_len {
                    return ctx.fail("C16/token-len", || format!("{}: token_len({}) = {} expected {}", desc(), i, trie.token_len(i as u32), want_len));
                }
                if trie.is_special_token(i as u32) != special {
                    return ctx.fail("C16/is-special", || format!("{}: is_special_token({})", desc(), i));
                }
            }
        }
        // decode
        let all: Vec<u32> = (0..n as u32).collect();
        let mut want_raw = vec![];
        let mut want_plain = vec![];
        for (i, w) in ws.iter().enumerate() {
            if w.is_empty() || w[0] == 0xFF {
                want_raw.push(0xFF);
                want_raw.extend_from_slice(format!("[{}]", i).as_bytes());
            } else {
                want_raw.extend_from_slice(w);
                want_plain.extend_from_slice(w);
            }
        }
        ctx.eval(1);
        if trie.decode_raw(&all) != want_raw || trie.decode_ext(&all, false) != want_plain {
            return ctx.fail("C16/decode", || format!("{}: decode_raw/decode_ext differ from the concatenation model", desc()));
        }
        // prefix_token_id / all_prefixes / has_extensions on probe strings
        let mut probes: Vec<Vec<u8>> = starts.iter().map(|s| s.0.clone()).collect();
        for w in ws.iter().take(20) {
            let mut p = w.clone();
            p.push(b'a');
            probes.push(p);
            if w.len() > 1 {
                probes.push(w[..w.len() - 1].to_vec());
            }
        }
        for p in &probes {
            ctx.eval(1);
            // longest token that is a prefix of p
            let best = ws.iter().filter(|w| !w.is_empty() && p.starts_with(w)).map(|w| w.len()).max();
            // (prefix_token_id asserts a non-empty argument)
            let (tid, len) = if p.is_empty() { (0, 0) } else { trie.prefix_token_id(p) };
            match best {
                Some(l) if !p.is_empty() => {
                    if len != l || ws[tid as usize] != p[..l] {
                        return ctx.fail("C16/prefix-token-id", || format!("{}: prefix_token_id({:?}) = ({}, {}) expected length {}", desc(), esc(p), tid, len, l));
                    }
                }
                _ => {}
            }
            let ap: Vec<Vec<u8>> = trie.all_prefixes(p).iter().map(|t| ws[*t as usize].clone()).collect();
            let mut want: Vec<Vec<u8>> = (1..=p.len()).map(|k| p[..k].to_vec()).filter(|x| ws.contains(x)).collect();
            want.dedup();
            if ap != want {
                return ctx.fail("C16/all-prefixes", || format!("{}: all_prefixes({:?}) = {:?} expected {:?}", desc(), esc(p), ap.iter().map(|x| esc(x)).collect::<Vec<_>>(), want.iter().map(|x| esc(x)).collect::<Vec<_>>()));
            }
            let he = trie.has_extensions(p);
            let want_he = ws.iter().any(|w| w.len() > p.len() && w.starts_with(p));
            if he != want_he {
                return ctx.fail("C16/has-extensions", || format!("{}: has_extensions({:?}) = {} expected {}", desc(), esc(p), he, want_he));
            }
        }
        // add_bias / has_valid_extensions against "test every token separately"
        let mut starts2: Vec<Vec<u8>> = vec![vec![]];
        starts2.extend(starts.iter().map(|s| s.0.clone()));
        for w in ws.iter().filter(|w| !w.is_empty()).take(6) {
            starts2.push(w[..w.len().min(2)].to_vec());
        }
        for st in &starts2 {
            let mut rec = StackRecognizer::from(RefDfa(dfa));
            let mut set = trie.alloc_token_set();
            trie.add_bias(&mut rec, &mut set, st);
            ctx.eval(n as u64);
            for (i, w) in ws.iter().enumerate() {
                let want = !w.is_empty() && ((w.starts_with(st) && naive_accepts(dfa, &w[st.len()..])) || (!st.is_empty() && st.starts_with(w)));
                if set.is_allowed(i as u32) != want {
                    return ctx.fail("C16/add-bias-differs-from-per-token-test", || {
                        format!("{}: recogniser {:?} start {:?}: token {} {:?} in set={} expected {}", desc(), dfa.table, esc(st), i, esc(w), set.is_allowed(i as u32), want)
                    });
                }
            }
            let mut beyond = false;
            for (wi, &d) in set.as_slice().iter().enumerate() {
                for b in 0..32 {
                    if wi * 32 + b >= n && d & (1 << b) != 0 {
                        beyond = true;
                    }
                }
            }
            if beyond {
                return ctx.fail("C16/bit-at-or-above-vocab-size", || format!("{}: start {:?}: add_bias left a bit >= {} set", desc(), esc(st), n));
            }
            let mut rec = StackRecognizer::from(RefDfa(dfa));
            let hv = trie.has_valid_extensions(&mut rec, st);
            let want_hv = ws.iter().any(|w| w.len() > st.len() && w.starts_with(st) && naive_accepts(dfa, &w[st.len()..]));
            if hv != want_hv {
                return ctx.fail("C16/has-valid-extensions", || format!("{}: recogniser {:?} start {:?}: has_valid_extensions = {} expected {}", desc(), dfa.table, esc(st), hv, want_hv));
            }
        }
        // filter(mask) behaves like a trie of the filtered vocabulary
        let fset = model_bits(filter, n);
        let fv = {
            let mut v = trie.alloc_token_set();
            for &i in &fset {
                v.allow_token(i as u32);
            }
            v
        };
        let ft = trie.filter(&fv);
        let fwords: Vec<Vec<u8>> = ws.iter().enumerate().map(|(i, w)| if fset.contains(&i) { w.clone() } else { vec![] }).collect();
        let mut rec = StackRecognizer::from(RefDfa(dfa));
        let mut set = ft.alloc_token_set();
        ft.add_bias(&mut rec, &mut set, &[]);
        let mut any = ft.alloc_token_set();
        ft.add_bias(&mut AnythingGoes, &mut any, &[]);
        ctx.eval(n as u64);
        for (i, w) in fwords.iter().enumerate() {
            let want = !w.is_empty() && naive_accepts(dfa, w);
            let want_any = !w.is_empty();
            if set.is_allowed(i as u32) != want || any.is_allowed(i as u32) != want_any {
                return ctx.fail("C16/filtered-trie-differs", || format!("{}: filter {:?}: token {} {:?}: in set={} (expected {}), with AnythingGoes={} (expected {})", desc(), fset, i, esc(&ws[i]), set.is_allowed(i as u32), want, any.is_allowed(i as u32), want_any));
            }
        }
        // greedy tokenisation of covered text
        let covered: BTreeSet<u8> = ws.iter().filter(|w| w.len() == 1).map(|w| w[0]).collect();
        for t in texts {
            if t.0.iter().all(|b| covered.contains(b) && *b != 0xFF) {
                let toks = trie.greedy_tokenize(&t.0);
                let back: Vec<u8> = toks.iter().flat_map(|x| ws[*x as usize].clone()).collect();
                ctx.eval(1);
                ctx.class("trie:greedy_roundtrips");
                if back != t.0 {
                    return ctx.fail("C16/greedy-tokenize-roundtrip", || format!("{}: greedy_tokenize({:?}) = {:?} decodes to {:?}", desc(), esc(&t.0), toks, esc(&back)));
                }
            }
        }
        Ok(())
    }

    fn run_hf(&self, byte_level: bool, merges: &[(u16, u16)], added: &[(String, bool)], space_char: u8, texts: &[B], ctx: &mut Ctx) -> R {
        // ---- build a tokenizer.json by hand
        let b2c = gpt2_byte_to_char();
        let space = ['▁', '_', 'Ġ'][space_char as usize % 3];
        let mut names: Vec<String> = vec![];
        let mut bytes: Vec<Vec<u8>> = vec![];
        if byte_level {
            for b in 0..=255u8 {
                names.push(b2c[b as usize].to_string());
                bytes.push(vec![b]);
            }
        } else {
            names.push("<unk>".into());
            bytes.push(vec![]);
            for b in 0..=255u8 {
                names.push(format!("<0x{:02X}>", b));
                bytes.push(vec![b]);
            }
            for c in [' ', 'a', 'b', 'c', 'e', 't', 'x', '1', '.', '\n', 'é'] {
                let s = if c == ' ' { space.to_string() } else { c.to_string() };
                names.push(s);
                bytes.push(c.to_string().into_bytes());
            }
        }
        let base = names.len();
        let first_merge_src = if byte_level { 0 } else { 257 };
        let mut merge_lines: Vec<String> = vec![];
        for (a, b) in merges {
            let span = names.len() - first_merge_src;
            let (ia, ib) = (first_merge_src + frac(*a, span), first_merge_src + frac(*b, span));
            let nm = format!("{}{}", names[ia], names[ib]);
            if names.contains(&nm) || nm.chars().count() > 12 {
                continue;
            }
            if byte_level {
                // keep merges inside printable ASCII so that any text stays tokenisable either way
                if !(bytes[ia].iter().chain(bytes[ib].iter()).all(|x| (0x20..0x7f).contains(x))) {
                    continue;
                }
            }
            merge_lines.push(format!("{} {}", names[ia], names[ib]));
            let mut bb = bytes[ia].clone();
            bb.extend_from_slice(&bytes[ib]);
            names.push(nm);
            bytes.push(bb);
        }
        let mut added_json = vec![];
        if !byte_level {
            added_json.push(json!({"id":0,"content":"<unk>","single_word":false,"lstrip":false,"rstrip":false,"normalized":false,"special":true}));
        }
        let mut added_ids: Vec<(usize, String, bool)> = vec![];
        for (name, special) in added {
            if names.contains(name) || name.is_empty() {
                continue;
            }
            // in a byte-level tokenizer the library itself decodes a non-ASCII added token through the
            // byte table (é -> 0xE9), so what "the tokenizer decodes it to" is not its UTF-8 text
            if byte_level && !name.is_ascii() {
                continue;
            }
            let id = names.len();
            names.push(name.clone());
            bytes.push(name.as_bytes().to_vec());
            added_ids.push((id, name.clone(), *special));
            added_json.push(json!({"id":id,"content":name,"single_word":false,"lstrip":false,"rstrip":false,"normalized":false,"special":special}));
        }
        let mut vocab = serde_json::Map::new();
        for (i, nm) in names.iter().enumerate() {
            if !added_ids.iter().any(|(id, _, _)| *id == i) {
                vocab.insert(nm.clone(), json!(i));
            }
        }
        let tj = if byte_level {
            json!({
                "version":"1.0","truncation":null,"padding":null,"added_tokens":added_json,"normalizer":null,
                "pre_tokenizer":{"type":"ByteLevel","add_prefix_space":false,"trim_offsets":true,"use_regex":false},
                "post_processor":null,
                "decoder":{"type":"ByteLevel","add_prefix_space":true,"trim_offsets":true,"use_regex":true},
                "model":{"type":"BPE","dropout":null,"unk_token":null,"continuing_subword_prefix":null,"end_of_word_suffix":null,"fuse_unk":false,"byte_fallback":false,"ignore_merges":false,"vocab":vocab,"merges":merge_lines}
            })
        } else {
            json!({
                "version":"1.0","truncation":null,"padding":null,"added_tokens":added_json,
                "normalizer":{"type":"Replace","pattern":{"String":" "},"content":space.to_string()},
                "pre_tokenizer":null,"post_processor":null,
                "decoder":{"type":"Sequence","decoders":[{"type":"Sequence","decoders":[{"type":"Replace","pattern":{"String":space.to_string()},"content":" "}]},{"type":"ByteFallback"},{"type":"Fuse"}]},
                "model":{"type":"BPE","dropout":null,"unk_token":"<unk>","continuing_subword_prefix":null,"end_of_word_suffix":null,"fuse_unk":true,"byte_fallback":true,"ignore_merges":false,"vocab":vocab,"merges":merge_lines}
            })
        };
        ctx.class(if byte_level { "kind:hf_byte_level" } else { "kind:hf_byte_fallback" });
        let desc = || format!("tokenizer.json ({} tokens, {} merges, added {:?}, space {:?})", names.len(), merge_lines.len(), added_ids, space);
        // ---- (1) the pure-JSON reader
        let got = match llguidance::token_bytes_from_tokenizer_json(&tj) {
            Ok(g) => g,
            Err(e) => return ctx.fail("C16/tokenizer-json-rejected", || format!("{}: token_bytes_from_tokenizer_json failed: {}", desc(), e)),
        };
        for (i, want) in bytes.iter().enumerate() {
            ctx.eval(1);
            let added_here = added_ids.iter().find(|(id, _, _)| *id == i);
            let mut w = want.clone();
            if let Some((_, _, true)) = added_here {
                w.insert(0, 0xFF);
            }
            if !byte_level && i == 0 {
                w = b"\xFF<unk>".to_vec();
            }
            if got.get(i) != Some(&w) {
                return ctx.fail("C16/token-bytes-from-tokenizer-json", || format!("{}: token {} {:?}: bytes {:?} expected {:?}", desc(), i, names[i], got.get(i).map(|x| esc(x)), esc(&w)));
            }
        }
        // ---- (2) the HuggingFace adapter
        let txt = serde_json::to_vec(&tj).unwrap();
        let bt = match toktrie_hf_tokenizers::ByteTokenizer::from_json_bytes(&txt) {
            Ok(b) => b,
            Err(e) => {
                ctx.class("hf_library_rejects_generated_json(skipped)");
                if ctx.verbose {
                    eprintln!("hf rejects: {}", e);
                }
                return Ok(());
            }
        };
        let tb = bt.token_bytes();
        for (i, want) in bytes.iter().enumerate() {
            ctx.eval(1);
            let added_here = added_ids.iter().find(|(id, _, _)| *id == i);
            let looks_special = |s: &str| s.starts_with('<') && s.ends_with('>');
            let mut w = want.clone();
            match added_here {
                Some((_, _, true)) => w.insert(0, 0xFF),
                // adapter policy (outside the claim): added tokens that look like <...> become special
                Some((_, nm, false)) if looks_special(nm) => continue,
                _ => {}
            }
            if !byte_level && i == 0 {
                w = b"\xFF<unk>".to_vec();
            }
            if tb.get(i) != Some(&w) {
                return ctx.fail("C16/hf-adapter-token-bytes", || format!("{}: token {} {:?}: adapter bytes {:?} expected {:?}", desc(), i, names[i], tb.get(i).map(|x| esc(x)), esc(&w)));
            }
        }
        if !added_ids.is_empty() {
            ctx.nontrivial(Fnv::new().str(&desc()).str(&format!("{:?}", merge_lines)).finish());
        }
        let env = match bt.into_tok_env(None) {
            Ok(e) => e,
            Err(e) => return ctx.fail("C16/hf-adapter-env", || format!("{}: into_tok_env failed: {}", desc(), e)),
        };
        for t in texts {
            // text must not contain added-token contents (they are matched as whole tokens - fine - but
            // special ones would decode to nothing) nor the marker byte
            if t.0.contains(&0xFF) || added_ids.iter().any(|(_, nm, _)| !nm.is_empty() && contains(&t.0, nm.as_bytes())) {
                continue;
            }
            // a byte-fallback tokenizer cannot distinguish its space replacement character from a space
            if !byte_level && contains(&t.0, space.to_string().as_bytes()) {
                continue;
            }
            if !byte_level && std::str::from_utf8(&t.0).is_err() {
                // byte-fallback tokenizers take &str; invalid UTF-8 goes through the greedy fallback, checked too
            }
            let toks = env.tokenize_bytes(&t.0);
            let back: Vec<u8> = toks.iter().flat_map(|x| env.tok_trie().token(*x).to_vec()).collect();
            ctx.eval(1);
            ctx.class("hf:text_roundtrips");
            if back != t.0 {
                return ctx.fail("C16/hf-tokenize-roundtrip", || format!("{}: tokenize_bytes({:?}) = {:?} whose bytes are {:?}", desc(), esc(&t.0), toks, esc(&back)));
            }
        }
        let _ = base;
        Ok(())
    }

    fn run_tiktoken(&self, n: usize, holes: &[u16], specials: u8, texts: &[B], ctx: &mut Ctx) -> R {
        let spec = crate::vocab::VocabSpec::bpe(n, true);
        let v = match spec.build() {
            Ok(v) => v,
            Err(_) => return Ok(()),
        };
        // encoder with holes: drop some ranks >= 256 that no later token needs is hard to know;
        // instead shift ranks so that empty slots appear (the adapter must fill them with placeholders)
        let mut encoder: Vec<(Vec<u8>, u32)> = vec![];
        let mut shift = 0u32;
        let hole_at: BTreeSet<usize> = holes.iter().map(|h| 256 + frac(*h, n - 255)).collect();
        let mut want: Vec<Option<Vec<u8>>> = vec![];
        for i in 0..n {
            if hole_at.contains(&i) {
                shift += 1;
                want.push(None);
            }
            encoder.push((v.tokens[i].clone(), i as u32 + shift));
            want.push(Some(v.tokens[i].clone()));
        }
        let total = want.len();
        let n_spec = 1 + specials as usize % 3;
        let names = ["<|endoftext|>", "<|fim|>", "<|x|>"];
        let sp: Vec<(String, u32)> = (0..n_spec).map(|k| (names[k].to_string(), (total + k) as u32)).collect();
        let t = match toktrie_tiktoken::TikTokenBPE::new(encoder, sp.clone(), crate::vocab::CL100K_PAT, Some(total + n_spec + 2), total as u32) {
            Ok(t) => t,
            Err(e) => return ctx.fail("C16/tiktoken-adapter-rejected", || format!("TikTokenBPE::new failed: {}", e)),
        };
        ctx.class("kind:tiktoken");
        let trie = t.tok_trie();
        for (i, w) in want.iter().enumerate() {
            ctx.eval(1);
            match w {
                Some(b) => {
                    if trie.token(i as u32) != &b[..] {
                        return ctx.fail("C16/tiktoken-token-bytes", || format!("rank {}: bytes {:?} expected {:?}", i, esc(trie.token(i as u32)), esc(b)));
                    }
                }
                None => {
                    if trie.token(i as u32).first() != Some(&0xFF) {
                        return ctx.fail("C16/tiktoken-hole-not-placeholder", || format!("empty rank {} is {:?}", i, esc(trie.token(i as u32))));
                    }
                }
            }
        }
        for (nm, id) in &sp {
            let mut b = vec![0xFFu8];
            b.extend_from_slice(nm.as_bytes());
            ctx.eval(1);
            if trie.token(*id) != &b[..] {
                return ctx.fail("C16/tiktoken-special-marker", || format!("special {} = {:?}", nm, esc(trie.token(*id))));
            }
        }
        if !hole_at.is_empty() {
            ctx.nontrivial(Fnv::new().str(&format!("{} {:?} {}", n, hole_at, n_spec)).finish());
        }
        for tx in texts {
            if tx.0.contains(&0xFF) {
                continue;
            }
            let toks = t.tokenize_bytes(&tx.0);
            let back: Vec<u8> = toks.iter().flat_map(|x| trie.token(*x).to_vec()).collect();
            ctx.eval(1);
            ctx.class("tiktoken:text_roundtrips");
            if back != tx.0 {
                return ctx.fail("C16/tiktoken-tokenize-roundtrip", || format!("tokenize_bytes({:?}) = {:?} whose bytes are {:?}", esc(&tx.0), toks, esc(&back)));
            }
            if toks.iter().any(|x| trie.is_special_token(*x)) {
                return ctx.fail("C16/tiktoken-text-produced-special", || format!("tokenize_bytes({:?}) produced a special token", esc(&tx.0)));
            }
        }
        Ok(())
    }
}

fn contains(h: &[u8], n: &[u8]) -> bool {
    !n.is_empty() && h.windows(n.len()).any(|w| w == n)
}

impl Prop for C16 {
    type Case = Case;
    const ID: &'static str = "C16";
    fn rule(&self) -> String {
        "case = one of: (a) SimpleVob operation sequence (allow/disallow/set/range/negate/set_all/or/and/sub/or_minus/grow/trim) on sizes around \
         the 32-bit word boundaries, compared after every operation with a BTreeSet model through every read accessor, plus 'no bit at or above \
         the size'; (b) arbitrary vocabulary (0-380 entries: duplicates, empties, deep prefix chains, 256-way fan-out, tokens of 1-290 bytes, \
         specials, the bare marker) with a random byte-level DFA, start prefixes, a filter mask and texts: token<->bytes, lengths, decode, \
         prefix_token_id, all_prefixes, has_extensions, add_bias and has_valid_extensions vs testing every token separately, filter() vs the \
         filtered vocabulary, greedy_tokenize round trip; (c) generated tokenizer.json descriptions (byte-level with the 256 GPT-2 code points and \
         consistent merges, or byte-fallback with <0xNN>, a replaced space character inside nested Sequence decoders), with added special / \
         non-special tokens: bytes from token_bytes_from_tokenizer_json and from the HuggingFace adapter vs the reference mapping, text round \
         trips incl. invalid UTF-8; (d) tiktoken rank tables (truncated cl100k with holes and specials): bytes, placeholders, markers, text round \
         trips. evaluation = one comparison; non-trivial = (a) sequence touching a word boundary, (b) vocabulary with duplicates and a prefix \
         chain of depth >= 4, (c) description with added tokens, (d) table with holes; distinct by case hash"
            .into()
    }
    fn assumptions(&self) -> Vec<String> {
        vec![
            "SimpleVob operations are called within their documented preconditions (indices below the size, equal sizes for binary operations)".into(),
            "texts containing the marker byte 0xFF or the content of an added token are excluded; added non-special tokens spelled <...> are adapter policy".into(),
        ]
    }
    fn cases(&self, tier: Tier) -> u32 {
        tier.pick(250, 3000)
    }
    fn strategy(&self, tier: Tier) -> BoxedStrategy<Case> {
        let nmax = tier.pick(1500usize, 6000usize);
        let added = proptest::collection::vec(
            (prop_oneof![Just("<|endoftext|>"), Just("<|tool|>"), Just("<a>"), Just("zzq"), Just("<think>"), Just("ab c"), Just("[INST]"), Just("é!")].prop_map(|s| s.to_string()), any::<bool>()),
            0..4,
        );
        prop_oneof![
            3 => (size_strategy(), proptest::collection::vec(vob_op(), 1..30), prop_oneof![3 => Just(0u8), 2 => Just(1u8), 1 => Just(31u8), 1 => Just(32u8), 1 => Just(33u8)])
                .prop_map(|(size, ops, cap)| Case::Vob { size, ops, cap }),
            4 => (trie_words(), any::<u16>(), dfa_strategy(), proptest::collection::vec(word_strategy(), 0..4), bits(), proptest::collection::vec(text_strategy(), 0..4),
                  proptest::option::weighted(0.08, prop_oneof![Just(300usize), Just(1023), Just(1024), Just(1025), Just(1500), Just(4000)]))
                .prop_map(|(mut words, eos, dfa, starts, filter, texts, long)| {
                    // one really long token (the statement lists long tokens): 'a' * len, plus its prefix so that it sits deep in the trie
                    if let Some(len) = long {
                        words.push(B(vec![b'a'; len]));
                        words.push(B(vec![b'a'; len / 2]));
                    }
                    Case::Trie { words, eos, dfa, starts, filter, texts }
                }),
            2 => (any::<bool>(), proptest::collection::vec(any::<(u16, u16)>(), 0..40), added, any::<u8>(), proptest::collection::vec(text_strategy(), 1..5))
                .prop_map(|(byte_level, merges, added, space_char, texts)| Case::HfJson { byte_level, merges, added, space_char, texts }),
            1 => (300usize..nmax, proptest::collection::vec(any::<u16>(), 0..6), any::<u8>(), proptest::collection::vec(text_strategy(), 1..6))
                .prop_map(|(n, holes, specials, texts)| Case::TikToken { n, holes, specials, texts }),
        ]
        .boxed()
    }
    fn run(&self, case: &Case, ctx: &mut Ctx) -> R {
        match case {
            Case::Vob { size, ops, cap } => self.run_vob(*size, ops, *cap, ctx),
            Case::Trie { words, eos, dfa, starts, filter, texts } => {
                let longest = words.iter().map(|w| w.0.len()).max().unwrap_or(0);
                let r = std::panic::catch_unwind(std::panic::AssertUnwindSafe(|| self.run_trie(words, *eos, dfa, starts, filter, texts, &mut *ctx)));
                match r {
                    Ok(r) => r,
                    Err(e) => {
                        let msg = e.downcast_ref::<String>().cloned().or_else(|| e.downcast_ref::<&str>().map(|s| s.to_string())).unwrap_or_default();
                        // toktrie's StackRecognizer keeps its states in a fixed array of 300
                        let key = if longest >= 300 && msg.contains("the len is 300 but the index is 300") {
                            "C16/stack-recognizer-overflows-at-300-bytes"
                        } else if longest > 1024 && msg.contains("num_parents <= (1 << PARENT_BITS)") {
                            // the same assertion when a trie is rebuilt (filter)
                            "C16/token-longer-than-1024-bytes-panics"
                        } else {
                            "C16/trie-walk-panicked"
                        };
                        ctx.fail(key, || format!("vocabulary with a longest token of {} bytes: panic: {}", longest, msg))
                    }
                }
            }
            Case::HfJson { byte_level, merges, added, space_char, texts } => self.run_hf(*byte_level, merges, added, *space_char, texts, ctx),
            Case::TikToken { n, holes, specials, texts } => self.run_tiktoken(*n, holes, *specials, texts, ctx),
        }
    }
}
