//! C17 — the C API returns what the Rust API returns and stays inside caller buffers.
//! Also carries the `llg_par_compute_mask` clause of C14.

use crate::engine::{factory_ext, is_limit_error, mask_words, short_err, GrammarSpec};
use crate::runner::{Ctx, Prop, Tier, R};
use crate::util::{frac, truncate_str, Fnv};
use crate::vocab::{Vocab, VocabSpec};
use crate::walk::{choose, mask_ids, steps, syn_vocab_strategy, Step};
use llguidance::earley::SlicedBiasComputer;
use llguidance::ffi::*;
use llguidance::toktrie::InferenceCapabilities;
use llguidance::{Constraint, Matcher};
use proptest::prelude::*;
use serde::{Deserialize, Serialize};
use std::ffi::CString;
use std::sync::atomic::{AtomicBool, Ordering};

/// set by the poisoning allocator (see main.rs) when a heap block's tail was overwritten
pub static HEAP_TAIL_CORRUPTED: AtomicBool = AtomicBool::new(false);

#[derive(Clone, Debug, Serialize, Deserialize)]
pub struct Case {
    pub g: GrammarSpec,
    pub vocab: VocabSpec,
    pub walk: Vec<Step>,
    /// destination sizes (selectors) for the parallel mask computation
    pub dests: Vec<u8>,
    pub ff_tokens: bool,
    /// the C tokenizer gets a `tokenize_fn` callback (canonical tokenizer: forced tokens are computed) instead of the
    /// built-in approximate greedy function
    #[serde(default)]
    pub callback: bool,
}

/// `LlgTokenizeFn`: greedy tokenisation through the trie of the `TokEnv` passed as user data; like the
/// contract demands it never writes more than `output_tokens_len` ids and returns the full count
extern "C" fn greedy_cb(user_data: *const std::ffi::c_void, bytes: *const u8, bytes_len: usize, output_tokens: *mut u32, output_tokens_len: usize) -> usize {
    let env = unsafe { &*(user_data as *const llguidance::toktrie::TokEnv) };
    let b = if bytes_len == 0 { &[][..] } else { unsafe { std::slice::from_raw_parts(bytes, bytes_len) } };
    let toks = env.tokenize_bytes(b);
    for (i, t) in toks.iter().enumerate().take(output_tokens_len) {
        unsafe { *output_tokens.add(i) = *t };
    }
    toks.len()
}

pub struct C17;

const CANARY: u32 = 0x5A5A_5A5A;
const GUARD: usize = 8;

struct GuardedBuf {
    data: Vec<u32>,
    words: usize,
}

impl GuardedBuf {
    fn new(words: usize) -> Self {
        // guard | payload (pre-filled with a non-zero pattern) | guard
        let mut data = vec![CANARY; words + 2 * GUARD];
        for w in data[GUARD..GUARD + words].iter_mut() {
            *w = 0xC3C3_C3C3;
        }
        GuardedBuf { data, words }
    }
    fn ptr(&mut self) -> *mut u32 {
        unsafe { self.data.as_mut_ptr().add(GUARD) }
    }
    fn payload(&self) -> &[u32] {
        &self.data[GUARD..GUARD + self.words]
    }
    fn guards_intact(&self) -> bool {
        self.data[..GUARD].iter().all(|w| *w == CANARY) && self.data[GUARD + self.words..].iter().all(|w| *w == CANARY)
    }
    fn untouched(&self) -> bool {
        self.payload().iter().all(|w| *w == 0xC3C3_C3C3)
    }
}

struct CTok {
    ptr: *mut LlgTokenizer,
}
impl Drop for CTok {
    fn drop(&mut self) {
        unsafe { llg_free_tokenizer(self.ptr) }
    }
}
struct CCons {
    ptr: *mut LlgConstraint,
}
impl Drop for CCons {
    fn drop(&mut self) {
        unsafe { llg_free_constraint(self.ptr) }
    }
}
struct CMatch {
    ptr: *mut LlgMatcher,
}
impl Drop for CMatch {
    fn drop(&mut self) {
        unsafe { llg_free_matcher(self.ptr) }
    }
}

fn c_tokenizer(vocab: &Vocab, callback: bool) -> Result<CTok, String> {
    let lens: Vec<u32> = vocab.tokens.iter().map(|t| t.len() as u32).collect();
    let bytes: Vec<u8> = vocab.tokens.iter().flat_map(|t| t.clone()).collect();
    let mut init: LlgTokenizerInitV2 = unsafe { std::mem::zeroed() };
    init.struct_size = std::mem::size_of::<LlgTokenizerInitV2>();
    init.vocab_size = vocab.len() as u32;
    init.tok_eos = vocab.eos[0];
    init.token_lens = lens.as_ptr();
    init.token_bytes = bytes.as_ptr();
    if callback {
        // `vocab` (and with it the TokEnv) outlives every C object of the case
        init.tokenize_fn = Some(greedy_cb);
        init.tokenize_user_data = &vocab.env as *const llguidance::toktrie::TokEnv as *const std::ffi::c_void;
    } else {
        init.use_approximate_greedy_tokenize_fn = true;
    }
    let extra: Vec<u32> = vocab.eos[1..].to_vec();
    if !extra.is_empty() {
        init.tok_eos_extra = extra.as_ptr();
        init.tok_eos_extra_count = extra.len() as u32;
    }
    let mut err = vec![0i8; 512];
    let p = unsafe { llg_new_tokenizer_v2(&init, err.as_mut_ptr() as *mut _, err.len()) };
    if p.is_null() {
        let msg: Vec<u8> = err.iter().take_while(|c| **c != 0).map(|c| *c as u8).collect();
        return Err(String::from_utf8_lossy(&msg).to_string());
    }
    Ok(CTok { ptr: p })
}

fn tagged(g: &GrammarSpec) -> (CString, CString) {
    match g {
        GrammarSpec::Lark(s) => (CString::new("lark").unwrap(), CString::new(s.replace('\0', " ")).unwrap()),
        GrammarSpec::Regex(s) => (CString::new("regex").unwrap(), CString::new(s.replace('\0', " ")).unwrap()),
        GrammarSpec::Json(v) => (CString::new("json").unwrap(), CString::new(v.to_string()).unwrap()),
    }
}

fn c_err(c: &CCons) -> Option<String> {
    let p = llg_get_error(unsafe { &*c.ptr });
    if p.is_null() {
        None
    } else {
        Some(unsafe { std::ffi::CStr::from_ptr(p) }.to_string_lossy().to_string())
    }
}

impl Prop for C17 {
    type Case = Case;
    const ID: &'static str = "C17";
    fn rule(&self) -> String {
        "case = (grammar, vocabulary with size around multiples of 32, mask walk, destination sizes, ff_tokens flag); C objects are created \
         through llg_new_tokenizer_v2 / llg_new_constraint_{lark,regex,json} / llg_new_matcher from the same token table and driven in \
         lock-step with Rust Constraint / Matcher twins built independently: masks (word for word), commit results (tokens, stop), \
         validate counts, rollback, ff tokens, accepting / stopped flags and error agreement are compared; llg_matcher_compute_mask_into and \
         llg_par_compute_mask write into canary-guarded buffers of w words for w in {0,1,W-1,W,W+1,2W,W+1000}: words below W must equal the \
         sequential mask, the rest must be zero, no bit >= vocab, guards intact; a poisoning allocator (0xA5 tail after every heap block, \
         checked on free) turns out-of-bounds reads of the engine's mask into visible 0xA5A5A5A5 words. evaluation = one C call compared; \
         non-trivial = call with w != W or a vocabulary size that is not a multiple of 32; distinct by hash(vocab size, w, committed tokens)"
            .into()
    }
    fn assumptions(&self) -> Vec<String> {
        vec![
            "the C tokenizer uses either the approximate greedy tokenize function (non-canonical) or a tokenize_fn callback doing greedy tokenisation (canonical, forced tokens on); the Rust twin is an equivalent greedy environment making the same claim".into(),
            "out-of-bounds reads are detected through the poisoned 64-byte tail of heap blocks; reads landing beyond it depend on heap contents".into(),
        ]
    }
    fn cases(&self, tier: Tier) -> u32 {
        tier.pick(120, 1200)
    }
    fn strategy(&self, _tier: Tier) -> BoxedStrategy<Case> {
        crate::gen::any_grammar_ext()
            .prop_flat_map(|g| {
                let voc = prop_oneof![
                    3 => syn_vocab_strategy(g.clone(), false),
                    2 => (250usize..264).prop_map(|n| { let mut v = VocabSpec::byte(); v.pad_to = n.max(257); v }),
                    1 => Just(VocabSpec::bpe(1000, false)),
                ];
                (Just(g), voc, steps(16), proptest::collection::vec(0u8..7, 2..9), any::<bool>(), proptest::bool::weighted(0.4))
            })
            .prop_map(|(g, vocab, walk, dests, ff_tokens, callback)| Case { g, vocab, walk, dests, ff_tokens, callback })
            .boxed()
    }

    fn run(&self, case: &Case, ctx: &mut Ctx) -> R {
        let mut vs = case.vocab.clone();
        // with a tokenize callback the C tokenizer counts as canonical; the Rust twin claims the same
        vs.canonical = case.callback;
        ctx.class(if case.callback { "tokenizer:callback(canonical)" } else { "tokenizer:approximate_greedy" });
        let vocab = match vs.build() {
            Ok(v) => v,
            Err(_) => return Ok(()),
        };
        let n = vocab.len();
        let w_exact = n.div_ceil(32);
        let ctok = match c_tokenizer(&vocab, case.callback) {
            Ok(t) => t,
            Err(e) => return ctx.fail("C17/tokenizer-rejected", || format!("llg_new_tokenizer_v2 failed: {}", e)),
        };
        let mut init: LlgConstraintInit = unsafe { std::mem::zeroed() };
        llg_constraint_init_set_defaults(&mut init, ctok.ptr);
        init.log_stderr_level = 0;
        let ff_ok = case.callback && case.ff_tokens;
        init.ff_tokens_ok = ff_ok;
        let (ty, data) = tagged(&case.g);
        let gtxt = truncate_str(&case.g.text(), 300);

        // Rust twins, built independently of the C objects
        let slices = SlicedBiasComputer::general_slices();
        let caps = InferenceCapabilities { ff_tokens: ff_ok, ..InferenceCapabilities::default() };
        let f = match factory_ext(&vocab, &slices, caps, None) {
            Ok(f) => f,
            Err(_) => return Ok(()),
        };

        // ---------------- sampling-loop interface
        let cc = CCons {
            ptr: match &case.g {
                GrammarSpec::Lark(_) => llg_new_constraint_lark(&init, data.as_ptr()),
                GrammarSpec::Regex(_) => llg_new_constraint_regex(&init, data.as_ptr()),
                GrammarSpec::Json(_) => llg_new_constraint_json(&init, data.as_ptr()),
            },
        };
        let rp = f.create_parser(case.g.top());
        ctx.eval(1);
        if c_err(&cc).is_some() != rp.is_err() {
            let (a, b) = (c_err(&cc), rp.as_ref().err().map(|e| e.to_string()));
            if a.as_deref().is_some_and(is_limit_error) || b.as_deref().is_some_and(is_limit_error) {
                return Ok(());
            }
            return ctx.fail("C17/constraint-creation-disagrees", || format!("grammar {}: C error {:?}, Rust error {:?}", gtxt, a.map(|e| short_err(&e)), b.map(|e| short_err(&e))));
        }
        let rp = match rp {
            Ok(p) => p,
            Err(_) => {
                ctx.class("compile_error");
                return Ok(());
            }
        };
        let mut rc = Constraint::new(rp);
        let mut toks: Vec<u32> = vec![];
        let nontriv_vocab = n % 32 != 0;
        for (si, st) in case.walk.iter().enumerate() {
            let tag = |x: String| format!("grammar {} vocab {} after tokens {:?}: {}", gtxt, n, toks, x);
            // parallel mask on clones, before the sequential call consumes the step
            if si % 3 == 0 {
                let k = case.dests.len();
                let clones: Vec<CCons> = (0..k).map(|_| CCons { ptr: llg_clone_constraint(unsafe { &*cc.ptr }) }).collect();
                let sizes: Vec<usize> = case.dests.iter().map(|d| match d { 0 => 0, 1 => 1, 2 => w_exact.saturating_sub(1), 3 => w_exact, 4 => w_exact + 1, 5 => 2 * w_exact, _ => w_exact + 1000 }).collect();
                let mut bufs: Vec<GuardedBuf> = sizes.iter().map(|w| GuardedBuf::new(*w)).collect();
                let steps_v: Vec<LlgConstraintStep> = clones.iter().zip(bufs.iter_mut()).map(|(c, b)| LlgConstraintStep { constraint: c.ptr, mask_dest: b.ptr(), mask_byte_len: b.words * 4 }).collect();
                unsafe { llg_par_compute_mask(steps_v.as_ptr(), steps_v.len(), std::ptr::null(), None) };
                // sequential reference on one more clone (Rust side)
                let mut seq = rc.clone();
                let want = match seq.compute_mask() {
                    Ok(r) => {
                        let mut w = vec![0u32; w_exact];
                        if let Some(m) = &r.sample_mask {
                            w = mask_words(m, n);
                        }
                        if r.is_stop() {
                            let e = vocab.eos[0] as usize;
                            w[e / 32] |= 1 << (e % 32);
                        }
                        Some(w)
                    }
                    Err(_) => None,
                };
                for (i, b) in bufs.iter().enumerate() {
                    ctx.eval(1);
                    if sizes[i] != w_exact || nontriv_vocab {
                        let mut h = Fnv::new().u64(n as u64).u64(sizes[i] as u64);
                        for t in &toks {
                            h = h.u64(*t as u64);
                        }
                        ctx.nontrivial(h.finish());
                    }
                    if !b.guards_intact() {
                        return ctx.fail("C17/write-outside-caller-buffer", || tag(format!("llg_par_compute_mask with a {}-word buffer damaged the guard words around it", sizes[i])));
                    }
                    let perr = c_err(&clones[i]);
                    match (&want, perr) {
                        (Some(w), None) => {
                            let p = b.payload();
                            for (j, &x) in p.iter().enumerate() {
                                let expect = if j < w_exact { w[j] } else { 0 };
                                if x != expect {
                                    let key = if j >= w_exact { "C17/par-mask-tail-not-zero" } else { "C17/par-mask-differs-from-sequential" };
                                    return ctx.fail(key, || tag(format!("llg_par_compute_mask into {} words (mask is {} words): word {} is {:#010x}, expected {:#010x}", sizes[i], w_exact, j, x, expect)));
                                }
                            }
                        }
                        (None, Some(_)) => {}
                        (Some(_), Some(e)) => {
                            if !is_limit_error(&e) {
                                return ctx.fail("C17/par-mask-error-disagrees", || tag(format!("parallel clone {} failed ({}) but the sequential mask succeeds", i, short_err(&e))));
                            }
                        }
                        (None, None) => {
                            return ctx.fail("C17/par-mask-error-disagrees", || tag(format!("parallel clone {} succeeded but the sequential mask fails", i)));
                        }
                    }
                }
                ctx.class("par_batches");
                if HEAP_TAIL_CORRUPTED.load(Ordering::SeqCst) {
                    return ctx.fail("C17/heap-block-overrun", || tag("a heap block's poisoned tail was overwritten".into()));
                }
            }
            // sequential lock-step
            let mut mres: LlgMaskResult = unsafe { std::mem::zeroed() };
            let rc_c = llg_compute_mask(unsafe { &mut *cc.ptr }, &mut mres);
            let rr = rc.compute_mask().map(|r| r.clone());
            ctx.eval(1);
            match (rc_c, &rr) {
                (0, Ok(r)) => {
                    if mres.is_stop != r.is_stop() {
                        return ctx.fail("C17/stop-flag-differs", || tag(format!("llg_compute_mask is_stop={} Rust {}", mres.is_stop, r.is_stop())));
                    }
                    if r.is_stop() {
                        break;
                    }
                    let rm = match &r.sample_mask {
                        Some(m) => m,
                        None => break,
                    };
                    if mres.sample_mask.is_null() {
                        return ctx.fail("C17/mask-missing", || tag("C mask pointer is null but Rust has a sample mask".into()));
                    }
                    let cm: Vec<u32> = unsafe { std::slice::from_raw_parts(mres.sample_mask, w_exact) }.to_vec();
                    if cm != mask_words(rm, n) {
                        return ctx.fail("C17/mask-differs", || tag("llg_compute_mask words differ from Constraint::compute_mask".into()));
                    }
                    let ids = mask_ids(rm, n);
                    let acc = ids.iter().any(|t| vocab.is_eos(*t));
                    let t = match choose(&ids, &vocab, st, acc) {
                        Some(t) => t,
                        None => break,
                    };
                    let mut cres: LlgCommitResult = unsafe { std::mem::zeroed() };
                    let cc_c = llg_commit_token(unsafe { &mut *cc.ptr }, t, &mut cres);
                    let rr2 = rc.commit_token(Some(t));
                    ctx.eval(1);
                    match (cc_c, rr2) {
                        (0, Ok(r2)) => {
                            let ct: Vec<u32> = if cres.n_tokens == 0 { vec![] } else { unsafe { std::slice::from_raw_parts(cres.tokens, cres.n_tokens as usize) }.to_vec() };
                            if ct != r2.ff_tokens || cres.is_stop != r2.stop {
                                return ctx.fail("C17/commit-result-differs", || tag(format!("commit({}) C=({:?},{}) Rust=({:?},{})", t, ct, cres.is_stop, r2.ff_tokens, r2.stop)));
                            }
                            toks.extend(ct);
                        }
                        (-1, Err(_)) => break,
                        (a, b) => {
                            let e = c_err(&cc).unwrap_or_default();
                            if is_limit_error(&e) {
                                return Ok(());
                            }
                            return ctx.fail("C17/commit-error-disagrees", || tag(format!("commit({}) C code {} ({}) Rust ok={}", t, a, short_err(&e), b.is_ok())));
                        }
                    }
                }
                (-1, Err(_)) => break,
                (a, b) => {
                    let e = c_err(&cc).unwrap_or_default();
                    if is_limit_error(&e) || b.as_ref().err().is_some_and(|x| is_limit_error(&x.to_string())) {
                        return Ok(());
                    }
                    return ctx.fail("C17/mask-error-disagrees", || tag(format!("llg_compute_mask code {} ({}) Rust ok={}", a, short_err(&e), b.is_ok())));
                }
            }
        }

        // ---------------- matcher interface
        let cm = CMatch { ptr: unsafe { llg_new_matcher(&init, ty.as_ptr(), data.as_ptr()) } };
        let mut rm = Matcher::new(f.create_parser(case.g.top()));
        let cmr = || unsafe { &mut *cm.ptr };
        if llg_matcher_is_error(cmr()) != rm.is_error() {
            return ctx.fail("C17/matcher-creation-disagrees", || format!("grammar {}: C is_error={} Rust {}", gtxt, llg_matcher_is_error(cmr()), rm.is_error()));
        }
        if rm.is_error() {
            return Ok(());
        }
        let bytes_exact = llg_matcher_get_mask_byte_size(cmr());
        ctx.eval(1);
        if bytes_exact != w_exact * 4 {
            return ctx.fail("C17/mask-byte-size", || format!("vocab {}: llg_matcher_get_mask_byte_size = {} expected {}", n, bytes_exact, w_exact * 4));
        }
        let mut mt: Vec<u32> = vec![];
        for (si, st) in case.walk.iter().enumerate() {
            let tag = |x: String| format!("grammar {} vocab {} (matcher) after tokens {:?}: {}", gtxt, n, mt, x);
            // flags
            ctx.eval(1);
            if llg_matcher_is_stopped(cmr()) != rm.is_stopped() {
                return ctx.fail("C17/matcher-stopped-flag", || tag("is_stopped differs".into()));
            }
            if rm.is_stopped() {
                // after a stop: compute_mask_into yields only EOS on both sides
                let mut b = GuardedBuf::new(w_exact);
                let code = unsafe { llg_matcher_compute_mask_into(cmr(), b.ptr(), w_exact * 4) };
                let want = rm.compute_mask_or_eos();
                ctx.eval(1);
                match (code, want) {
                    (0, Ok(w)) => {
                        if b.payload() != &mask_words(&w, n)[..] || !b.guards_intact() {
                            return ctx.fail("C17/matcher-mask-differs", || tag("mask after stop differs".into()));
                        }
                    }
                    (-1, Err(_)) => {}
                    (a, b2) => return ctx.fail("C17/matcher-mask-error-disagrees", || tag(format!("after stop: C code {} Rust ok={}", a, b2.is_ok()))),
                }
                break;
            }
            let (ca, ra) = (llg_matcher_is_accepting(cmr()), rm.is_accepting().unwrap_or(false));
            if ca != ra {
                return ctx.fail("C17/matcher-accepting-flag", || tag(format!("is_accepting C={} Rust={}", ca, ra)));
            }
            let mut b = GuardedBuf::new(w_exact);
            let code = unsafe { llg_matcher_compute_mask_into(cmr(), b.ptr(), w_exact * 4) };
            let code2 = llg_matcher_compute_mask(cmr());
            let want = rm.compute_mask_or_eos();
            ctx.eval(1);
            let mask = match (code, code2, want) {
                (0, 0, Ok(w)) => {
                    let ww = mask_words(&w, n);
                    let p2 = llg_matcher_get_mask(cmr());
                    let got2: Vec<u32> = unsafe { std::slice::from_raw_parts(p2, w_exact) }.to_vec();
                    if b.payload() != &ww[..] || got2 != ww || !b.guards_intact() {
                        return ctx.fail("C17/matcher-mask-differs", || tag("llg_matcher_compute_mask(_into) differs from Matcher::compute_mask_or_eos".into()));
                    }
                    w
                }
                (-1, -1, Err(_)) => break,
                (a, a2, w) => {
                    return ctx.fail("C17/matcher-mask-error-disagrees", || tag(format!("C codes {} {} Rust ok={}", a, a2, w.is_ok())));
                }
            };
            // wrong-size destinations must fail without touching the buffer
            for wrong in [0usize, w_exact.saturating_sub(1), w_exact + 1] {
                if wrong == w_exact {
                    continue;
                }
                let mut b = GuardedBuf::new(wrong);
                let code = unsafe { llg_matcher_compute_mask_into(cmr(), b.ptr(), wrong * 4) };
                ctx.eval(1);
                ctx.nontrivial(Fnv::new().u64(n as u64).u64(wrong as u64).u64(si as u64).str(&gtxt).finish());
                if code != -1 || !b.guards_intact() || !b.untouched() {
                    return ctx.fail("C17/matcher-mask-into-wrong-size", || tag(format!("llg_matcher_compute_mask_into with {} words (needs {}) returned {} / wrote into the buffer", wrong, w_exact, code)));
                }
                if llg_matcher_is_error(cmr()) {
                    return ctx.fail("C17/matcher-error-after-size-mismatch", || tag("a size mismatch put the matcher into error state".into()));
                }
            }
            // validate / ff tokens on the same state
            let seq: Vec<u32> = (0..3).map(|j| frac(st.pick.wrapping_mul(31).wrapping_add(j * 7919), n) as u32).collect();
            let cv = unsafe { llg_matcher_validate_tokens(cmr(), seq.as_ptr(), seq.len()) };
            let rv = rm.clone().validate_tokens(&seq).map(|x| x as i32).unwrap_or(-1);
            ctx.eval(1);
            if cv != rv {
                return ctx.fail("C17/validate-count-differs", || tag(format!("validate_tokens({:?}) C={} Rust={}", seq, cv, rv)));
            }
            let mut ffb = vec![0u32; 64];
            let cf = unsafe { llg_matcher_compute_ff_tokens(cmr(), ffb.as_mut_ptr(), ffb.len()) };
            let rf = rm.compute_ff_tokens();
            ctx.eval(1);
            if cf < 0 || ffb[..(cf as usize).min(64)] != rf[..rf.len().min(64)] {
                return ctx.fail("C17/ff-tokens-differ", || tag(format!("ff tokens C={:?} Rust={:?}", &ffb[..(cf.max(0) as usize).min(64)], rf)));
            }
            // the same query into buffers that are shorter than the forced sequence: only `output_len` tokens may be
            // written (guard words on both sides), the count is the clamped one
            if !rf.is_empty() {
                for l in [0usize, 1, rf.len() - 1] {
                    if l >= rf.len() {
                        continue;
                    }
                    let mut gb = vec![CANARY; 4 + l + 8];
                    for w in gb[4..4 + l].iter_mut() {
                        *w = 0;
                    }
                    let cf2 = unsafe { llg_matcher_compute_ff_tokens(cmr(), gb.as_mut_ptr().add(4), l) };
                    ctx.eval(1);
                    ctx.class("ff_tokens_into_short_buffer");
                    if gb[..4].iter().chain(gb[4 + l..].iter()).any(|w| *w != CANARY) {
                        return ctx.fail("C17/ff-tokens-written-outside-buffer", || tag(format!("llg_matcher_compute_ff_tokens(output_len={}) with {} forced tokens wrote outside the caller's buffer: {:x?}", l, rf.len(), gb)));
                    }
                    if cf2 != l as i32 || gb[4..4 + l] != rf[..l] {
                        return ctx.fail("C17/ff-tokens-differ", || tag(format!("llg_matcher_compute_ff_tokens(output_len={}) returned {} and wrote {:?}; Rust ff tokens {:?}", l, cf2, &gb[4..4 + l], rf)));
                    }
                }
            }
            // rollback round trip every few steps
            if si % 4 == 3 && !mt.is_empty() {
                let k = 1 + frac(st.pick, mt.len());
                let (c1, r1) = (llg_matcher_rollback(cmr(), k), rm.rollback(k));
                ctx.eval(1);
                if (c1 == 0) != r1.is_ok() {
                    return ctx.fail("C17/rollback-disagrees", || tag(format!("rollback({}) C={} Rust ok={}", k, c1, r1.is_ok())));
                }
                if c1 != 0 {
                    break;
                }
                mt.truncate(mt.len() - k);
                continue;
            }
            let ids = mask_ids(&mask, n);
            let t = match choose(&ids, &vocab, st, ra) {
                Some(t) => t,
                None => break,
            };
            let (c1, r1) = (llg_matcher_consume_token(cmr(), t), rm.consume_token(t));
            ctx.eval(1);
            if (c1 == 0) != r1.is_ok() {
                return ctx.fail("C17/consume-disagrees", || tag(format!("consume_token({}) C={} Rust ok={}", t, c1, r1.is_ok())));
            }
            if c1 != 0 {
                break;
            }
            mt.push(t);
        }
        // out-of-range token: both sides must fail (and stay failed)
        {
            let bad = n as u32 + 7;
            let (c1, r1) = (llg_matcher_consume_token(cmr(), bad), rm.consume_token(bad));
            ctx.eval(1);
            if (c1 == 0) != r1.is_ok() || llg_matcher_is_error(cmr()) != rm.is_error() {
                return ctx.fail("C17/out-of-range-token-disagrees", || format!("grammar {}: consume_token({}) C={} Rust ok={} error flags {}/{}", gtxt, bad, c1, r1.is_ok(), llg_matcher_is_error(cmr()), rm.is_error()));
            }
        }
        if HEAP_TAIL_CORRUPTED.load(Ordering::SeqCst) {
            return ctx.fail("C17/heap-block-overrun", || format!("grammar {}: a heap block's poisoned tail was overwritten", gtxt));
        }
        Ok(())
    }
}
