//! C18 — stop, end-of-sequence and accepting status are mutually consistent
//! (sampling-loop interface, matcher interface, stop-sequence controller).

use crate::engine::{factory_ext, is_limit_error, mask_words, short_err, GrammarSpec};
use crate::runner::{Ctx, Prop, Tier, R};
use crate::cfg::{cfg_case, Analysed, CfgCase, Chart};
use crate::rx::{pick_render, rx_strategy, Dfa, Rx, RxOpts};
use crate::util::{esc, frac, truncate_str, Fnv, B};
use crate::vocab::{Base, Vocab, VocabSpec};
use crate::walk::{mask_ids, syn_vocab_strategy};
use llguidance::api::StopReason;
use llguidance::toktrie::InferenceCapabilities;
use llguidance::{Constraint, Matcher, StopController};
use proptest::prelude::*;
use serde::{Deserialize, Serialize};

#[derive(Clone, Debug, Serialize, Deserialize)]
pub enum Call {
    Mask,
    MaskOrEos,
    /// commit the pick-th allowed token
    Commit(u16),
    CommitEos,
    /// commit a token that is not in the mask
    CommitBad(u16),
    CommitOutOfRange(u16),
    /// sampling loop only: commit without a preceding mask / with None
    CommitBlind(u16),
    CommitNone,
    Validate(u16, u16),
    TryConsume(u16, u16),
    Rollback(u16),
    RollbackTooFar,
    Accepting,
    /// `consume_tokens` on a short sequence: an allowed token, optionally an EOS, then an allowed or an arbitrary token
    ConsumeSeq(u16, u8, u16),
}

#[derive(Clone, Debug, Serialize, Deserialize)]
pub enum Case {
    Matcher { rx: Rx, render: u8, vocab: VocabSpec, calls: Vec<Call> },
    /// the matcher interface over a generated context-free grammar (several lexemes), reference = chart recogniser
    MatcherCfg { cfg: CfgCase, vocab: VocabSpec, calls: Vec<Call> },
    Loop { rx: Rx, render: u8, vocab: VocabSpec, ff: bool, calls: Vec<Call> },
    Stop { vocab_extra: Vec<B>, stop_strings: Vec<String>, stop_regex: Option<String>, stop_tokens: Vec<u8>, text: String, cuts: Vec<u16>, specials_at: Vec<(u16, u8)> },
    /// arbitrary byte tokens (any byte, so also text that is not UTF-8) through a StopController: it must not panic
    StopBytes { stop_strings: Vec<String>, stop_regex: Option<String>, bytes: B },
}

pub struct C18;

fn call_strategy() -> impl Strategy<Value = Call> {
    prop_oneof![
        4 => Just(Call::Mask),
        1 => Just(Call::MaskOrEos),
        10 => any::<u16>().prop_map(Call::Commit),
        2 => Just(Call::CommitEos),
        1 => any::<u16>().prop_map(Call::CommitBad),
        1 => any::<u16>().prop_map(Call::CommitOutOfRange),
        1 => any::<u16>().prop_map(Call::CommitBlind),
        1 => Just(Call::CommitNone),
        2 => any::<(u16, u16)>().prop_map(|(a, b)| Call::Validate(a, b)),
        1 => any::<(u16, u16)>().prop_map(|(a, b)| Call::TryConsume(a, b)),
        1 => any::<u16>().prop_map(Call::Rollback),
        1 => Just(Call::RollbackTooFar),
        1 => Just(Call::Accepting),
        2 => any::<(u16, u8, u16)>().prop_map(|(a, f, b)| Call::ConsumeSeq(a, f, b)),
    ]
}

/// the reference language of a case: the DFA of a regex, or the chart recogniser of a (reduced) CFG
pub enum RefLang<'a> {
    Dfa(&'a Dfa),
    Cfg(&'a Analysed<'a>),
}

impl RefLang<'_> {
    fn chart_at<'b>(a: &'b Analysed<'b>, text: &[u8]) -> Option<Chart<'b>> {
        let mut c = Chart::new(a);
        for &b in text {
            if !c.push(b) {
                return None;
            }
        }
        Some(c)
    }
    fn extensible(&self, text: &[u8]) -> bool {
        match self {
            RefLang::Dfa(d) => {
                let s = d.run(text);
                (0..255u32).any(|b| d.is_live(d.step(s, b as u8)))
            }
            RefLang::Cfg(a) => Self::chart_at(a, text).is_some_and(|c| c.can_extend()),
        }
    }
    fn complete(&self, text: &[u8]) -> bool {
        match self {
            RefLang::Dfa(d) => d.accepts(text),
            RefLang::Cfg(a) => Self::chart_at(a, text).is_some_and(|c| c.accepting()),
        }
    }
    /// must the engine report a stop once `text` has been committed
    fn must_stop(&self, text: &[u8]) -> bool {
        self.complete(text) && !self.extensible(text)
    }
}

fn expected_mask(l: &RefLang, vocab: &Vocab, text: &[u8]) -> Vec<bool> {
    let in_cmp = |t: u32| vocab.is_regular(t) && !vocab.bytes(t).contains(&0xFF);
    match l {
        RefLang::Dfa(d) => {
            let s = d.run(text);
            (0..vocab.len() as u32)
                .map(|t| {
                    if vocab.is_eos(t) {
                        d.is_acc(s)
                    } else if in_cmp(t) {
                        d.is_live(d.run_from(s, vocab.bytes(t)))
                    } else {
                        false
                    }
                })
                .collect()
        }
        RefLang::Cfg(a) => {
            let mut c = match RefLang::chart_at(a, text) {
                Some(c) => c,
                None => return vec![false; vocab.len()],
            };
            let acc = c.accepting();
            (0..vocab.len() as u32)
                .map(|t| {
                    if vocab.is_eos(t) {
                        acc
                    } else if in_cmp(t) {
                        // the empty token is allowed wherever the prefix is viable, as in the DFA case
                        c.viable_ext(vocab.bytes(t))
                    } else {
                        false
                    }
                })
                .collect()
        }
    }
}

fn mask_matches(mask: &llguidance::toktrie::SimpleVob, want: &[bool], vocab: &Vocab) -> Option<String> {
    for t in 0..vocab.len() as u32 {
        // tokens containing the marker byte are outside the comparison (C19 / known finding)
        if !vocab.is_eos(t) && (!vocab.is_regular(t) || vocab.bytes(t).contains(&0xFF)) {
            continue;
        }
        if mask.is_allowed(t) != want[t as usize] {
            return Some(format!("token {} {:?}: mask={} reference={}", t, esc(vocab.bytes(t)), mask.is_allowed(t), want[t as usize]));
        }
    }
    None
}

impl C18 {
    fn run_matcher(&self, rx: &Rx, render: u8, vs: &VocabSpec, calls: &[Call], ctx: &mut Ctx) -> R {
        let d = match Dfa::from_rx(rx) {
            Ok(d) if !d.is_empty_language() => d,
            _ => return Ok(()),
        };
        let (_, g) = pick_render(rx, render);
        self.run_matcher_on(&RefLang::Dfa(&d), &g, "kind:matcher", vs, calls, ctx)
    }

    fn run_matcher_cfg(&self, cfg: &CfgCase, vs: &VocabSpec, calls: &[Call], ctx: &mut Ctx) -> R {
        let (g, bnf) = cfg.build();
        let a = match bnf.analyse() {
            Some(a) if a.all_productive => a,
            _ => return Ok(()),
        };
        self.run_matcher_on(&RefLang::Cfg(&a), &g, "kind:matcher_cfg", vs, calls, ctx)
    }

    fn run_matcher_on(&self, d: &RefLang, g: &GrammarSpec, kind: &str, vs: &VocabSpec, calls: &[Call], ctx: &mut Ctx) -> R {
        // a grammar that only admits the empty string is complete and not extensible before anything is committed;
        // the engine evaluates stops when a token is committed, so there is no report to compare at that point
        if d.must_stop(&[]) {
            ctx.class("skip:language-is-only-the-empty-string");
            return Ok(());
        }
        let vocab = match vs.build() {
            Ok(v) => v,
            Err(_) => return Ok(()),
        };
        let n = vocab.len();
        let f = match factory_ext(&vocab, &[], InferenceCapabilities::default(), None) {
            Ok(f) => f,
            Err(_) => return Ok(()),
        };
        let mut m = Matcher::new(f.create_parser(g.top()));
        if m.is_error() {
            return Ok(());
        }
        ctx.class(kind);
        let rs = d;
        let gtxt = truncate_str(&g.text(), 300);
        let mut toks: Vec<u32> = vec![];
        let mut eos_done = false;
        let mut failed: Option<String> = None; // model: permanently failed, with this message
        let mut had_illegal = false;
        let mut had_stop = false;
        let mut log: Vec<String> = vec![];
        for c in calls {
            let text = vocab.decode(&toks);
            let model_stopped = eos_done || rs.must_stop(&text);
            macro_rules! tag {
                ($x:expr) => {
                    format!("grammar {} calls {:?} tokens {:?}: {}", gtxt, log, toks, $x)
                };
            }
            log.push(format!("{:?}", c));
            ctx.eval(1);
            // invariants that hold before every call
            if let Some(msg) = &failed {
                if !m.is_error() || m.get_error().as_deref() != Some(msg.as_str()) || !m.is_stopped() || m.stop_reason() != StopReason::InternalError {
                    return ctx.fail("C18/failed-matcher-does-not-stay-failed", || tag!(format!("after a failure the matcher reports is_error={} stop_reason={:?}", m.is_error(), m.stop_reason())));
                }
            } else {
                if m.is_error() {
                    return ctx.fail("C18/matcher-failed-without-error-return", || tag!(format!("is_error without any call having returned an error: {:?}", m.get_error().map(|e| short_err(&e)))));
                }
                if m.is_stopped() != model_stopped {
                    return ctx.fail("C18/stop-status-differs-from-reference", || tag!(format!("is_stopped={} ({:?}) but reference: complete={} extensible={} eos_committed={}", m.is_stopped(), m.stop_reason(), rs.complete(&text), rs.extensible(&text), eos_done)));
                }
                if model_stopped {
                    had_stop = true;
                    if !rs.complete(&text) {
                        return ctx.fail("C18/stopped-on-incomplete-text", || tag!(format!("stopped but {:?} is not a complete string", esc(&text))));
                    }
                }
            }
            let legal_state = failed.is_none() && !model_stopped;
            // perform the call
            let res: Result<String, String> = match c {
                Call::Mask => m.compute_mask().map_err(|e| e.to_string()).and_then(|mask| {
                    if legal_state {
                        if let Some(dif) = mask_matches(&mask, &expected_mask(d, &vocab, &text), &vocab) {
                            return Err(format!("WRONG-OK mask {}", dif));
                        }
                    } else {
                        return Err("WRONG-OK compute_mask succeeded in a stopped/failed state".to_string());
                    }
                    Ok("mask".into())
                }),
                Call::MaskOrEos => m.compute_mask_or_eos().map_err(|e| e.to_string()).and_then(|mask| {
                    if failed.is_some() {
                        return Err("WRONG-OK compute_mask_or_eos succeeded on a failed matcher".to_string());
                    }
                    if model_stopped {
                        let ids = mask_ids(&mask, n);
                        if ids != vocab.eos {
                            return Err(format!("WRONG-OK after stop compute_mask_or_eos = {:?}, expected exactly the EOS set {:?}", ids, vocab.eos));
                        }
                    } else if let Some(dif) = mask_matches(&mask, &expected_mask(d, &vocab, &text), &vocab) {
                        return Err(format!("WRONG-OK mask {}", dif));
                    }
                    Ok("mask_or_eos".into())
                }),
                Call::Commit(p) | Call::CommitBad(p) | Call::CommitOutOfRange(p) | Call::CommitBlind(p) => {
                    let want = expected_mask(d, &vocab, &text);
                    let allowed: Vec<u32> = (0..n as u32).filter(|t| want[*t as usize] && !vocab.is_eos(*t)).collect();
                    let t = match c {
                        Call::Commit(_) | Call::CommitBlind(_) => {
                            if allowed.is_empty() {
                                continue;
                            }
                            allowed[frac(*p, allowed.len())]
                        }
                        Call::CommitBad(_) => {
                            let bad: Vec<u32> = (0..n as u32).filter(|t| !want[*t as usize] && vocab.is_regular(*t) && !vocab.bytes(*t).contains(&0xFF)).collect();
                            if bad.is_empty() {
                                continue;
                            }
                            bad[frac(*p, bad.len())]
                        }
                        _ => n as u32 + *p as u32,
                    };
                    let legal = legal_state && matches!(c, Call::Commit(_) | Call::CommitBlind(_));
                    if !matches!(c, Call::Commit(_) | Call::CommitBlind(_)) {
                        had_illegal = true;
                    }
                    match m.consume_token(t) {
                        Ok(()) => {
                            if !legal {
                                Err(format!("WRONG-OK consume_token({}) succeeded although it is illegal here (stopped={} failed={})", t, model_stopped, failed.is_some()))
                            } else {
                                toks.push(t);
                                Ok("commit".into())
                            }
                        }
                        Err(e) => {
                            if legal {
                                Err(format!("WRONG-ERR legal consume_token({}) failed: {}", t, e))
                            } else {
                                Err(e.to_string())
                            }
                        }
                    }
                }
                Call::CommitEos => {
                    let legal = legal_state && rs.complete(&text);
                    if !legal {
                        had_illegal = true;
                    }
                    match m.consume_token(vocab.eos[0]) {
                        Ok(()) => {
                            if !legal {
                                Err("WRONG-OK EOS accepted in a non-accepting / stopped state".into())
                            } else {
                                eos_done = true;
                                toks.push(vocab.eos[0]);
                                Ok("eos".into())
                            }
                        }
                        Err(e) => {
                            if legal {
                                Err(format!("WRONG-ERR EOS rejected in an accepting state: {}", e))
                            } else {
                                Err(e.to_string())
                            }
                        }
                    }
                }
                Call::CommitNone => continue,
                Call::Validate(a, b) | Call::TryConsume(a, b) => {
                    // a short sequence: allowed token(s) followed by an arbitrary one
                    let want = expected_mask(d, &vocab, &text);
                    let allowed: Vec<u32> = (0..n as u32).filter(|t| want[*t as usize] && !vocab.is_eos(*t)).collect();
                    let mut seq = vec![];
                    if !allowed.is_empty() {
                        seq.push(allowed[frac(*a, allowed.len())]);
                    }
                    seq.push(frac(*b, n) as u32);
                    // reference count
                    let mut cur = text.clone();
                    let mut cnt = 0;
                    if legal_state {
                        for &t in &seq {
                            let w = expected_mask(d, &vocab, &cur);
                            if vocab.is_eos(t) {
                                if w[t as usize] {
                                    cnt += 1;
                                }
                                break;
                            }
                            if !vocab.is_regular(t) || vocab.bytes(t).contains(&0xFF) {
                                cnt = usize::MAX; // outside the comparison
                                break;
                            }
                            if !w[t as usize] {
                                break;
                            }
                            cnt += 1;
                            cur.extend_from_slice(vocab.bytes(t));
                            if rs.must_stop(&cur) {
                                // try_consume latches the stop after each token; validate does not
                                if matches!(c, Call::TryConsume(..)) {
                                    break;
                                }
                            }
                        }
                    }
                    if let Call::Validate(..) = c {
                        match m.validate_tokens(&seq) {
                            Ok(k) => {
                                if failed.is_some() {
                                    Err("WRONG-OK validate_tokens succeeded on a failed matcher".into())
                                } else if model_stopped && k != 0 {
                                    Err(format!("WRONG-OK validate_tokens after stop = {}", k))
                                } else if legal_state && cnt != usize::MAX && k != cnt {
                                    Err(format!("WRONG-OK validate_tokens({:?}) = {} reference {}", seq, k, cnt))
                                } else {
                                    Ok("validate".into())
                                }
                            }
                            Err(e) => {
                                if legal_state {
                                    Err(format!("WRONG-ERR validate_tokens failed: {}", e))
                                } else {
                                    Err(e.to_string())
                                }
                            }
                        }
                    } else {
                        match m.try_consume_tokens(&seq) {
                            Ok(k) => {
                                if failed.is_some() {
                                    Err("WRONG-OK try_consume_tokens succeeded on a failed matcher".into())
                                } else if model_stopped && k != 0 {
                                    Err(format!("WRONG-OK try_consume_tokens after stop = {}", k))
                                } else if legal_state && cnt != usize::MAX && k != cnt {
                                    Err(format!("WRONG-OK try_consume_tokens({:?}) = {} reference {}", seq, k, cnt))
                                } else {
                                    for &t in &seq[..k.min(seq.len())] {
                                        if vocab.is_eos(t) {
                                            eos_done = true;
                                        }
                                        toks.push(t);
                                    }
                                    Ok("try_consume".into())
                                }
                            }
                            Err(e) => {
                                if legal_state && cnt != usize::MAX {
                                    Err(format!("WRONG-ERR try_consume_tokens failed: {}", e))
                                } else {
                                    Err(e.to_string())
                                }
                            }
                        }
                    }
                }
                Call::ConsumeSeq(a, flags, b) => {
                    // simulate the sequence token by token on the reference
                    let regular: Vec<u32> = (0..n as u32).filter(|t| vocab.is_regular(*t) && !vocab.bytes(*t).contains(&0xFF)).collect();
                    let mut seq: Vec<u32> = vec![];
                    let mut cur = text.clone();
                    let mut cur_eos = eos_done;
                    let mut all_legal = legal_state;
                    let step = |t: u32, seq: &mut Vec<u32>, cur: &mut Vec<u8>, cur_eos: &mut bool, all_legal: &mut bool| {
                        let stopped = *cur_eos || rs.must_stop(cur);
                        let w = expected_mask(d, &vocab, cur);
                        if stopped || !w[t as usize] {
                            *all_legal = false;
                        }
                        if vocab.is_eos(t) {
                            *cur_eos = true;
                        } else {
                            cur.extend_from_slice(vocab.bytes(t));
                        }
                        seq.push(t);
                    };
                    let w0 = expected_mask(d, &vocab, &cur);
                    let allowed: Vec<u32> = (0..n as u32).filter(|t| w0[*t as usize] && !vocab.is_eos(*t)).collect();
                    if !allowed.is_empty() {
                        step(allowed[frac(*a, allowed.len())], &mut seq, &mut cur, &mut cur_eos, &mut all_legal);
                    }
                    if flags & 1 != 0 {
                        let e = if flags & 2 != 0 { *vocab.eos.last().unwrap() } else { vocab.eos[0] };
                        step(e, &mut seq, &mut cur, &mut cur_eos, &mut all_legal);
                    }
                    let w1 = expected_mask(d, &vocab, &cur);
                    let allowed1: Vec<u32> = (0..n as u32).filter(|t| w1[*t as usize] && !vocab.is_eos(*t)).collect();
                    if flags & 4 != 0 && !allowed1.is_empty() {
                        step(allowed1[frac(*b, allowed1.len())], &mut seq, &mut cur, &mut cur_eos, &mut all_legal);
                    } else if flags & 8 != 0 && !regular.is_empty() {
                        step(regular[frac(*b, regular.len())], &mut seq, &mut cur, &mut cur_eos, &mut all_legal);
                    }
                    if seq.is_empty() {
                        continue;
                    }
                    if !all_legal {
                        had_illegal = true;
                    }
                    match m.consume_tokens(&seq) {
                        Ok(()) => {
                            if !all_legal {
                                Err(format!("WRONG-OK consume_tokens({:?}) succeeded although a token of it is illegal at its position (a stop precedes it, or the reference rejects it)", seq))
                            } else {
                                toks.extend_from_slice(&seq);
                                eos_done = cur_eos;
                                Ok("consume_tokens".into())
                            }
                        }
                        Err(e) => {
                            if all_legal {
                                Err(format!("WRONG-ERR legal consume_tokens({:?}) failed: {}", seq, e))
                            } else {
                                Err(e.to_string())
                            }
                        }
                    }
                }
                Call::Rollback(p) => {
                    if toks.is_empty() {
                        continue;
                    }
                    let k = 1 + frac(*p, toks.len());
                    match m.rollback(k) {
                        Ok(()) => {
                            if failed.is_some() {
                                Err("WRONG-OK rollback succeeded on a failed matcher".into())
                            } else {
                                if toks[toks.len() - k..].iter().any(|t| vocab.is_eos(*t)) {
                                    eos_done = false;
                                }
                                toks.truncate(toks.len() - k);
                                Ok("rollback".into())
                            }
                        }
                        Err(e) => {
                            if failed.is_none() {
                                Err(format!("WRONG-ERR legal rollback({}) failed: {}", k, e))
                            } else {
                                Err(e.to_string())
                            }
                        }
                    }
                }
                Call::RollbackTooFar => {
                    had_illegal = true;
                    match m.rollback(toks.len() + 1) {
                        Ok(()) => Err("WRONG-OK rollback beyond the history succeeded".into()),
                        Err(e) => Err(e.to_string()),
                    }
                }
                Call::Accepting => match m.is_accepting() {
                    Ok(a) => {
                        if legal_state && a != rs.complete(&text) {
                            Err(format!("WRONG-OK is_accepting={} reference {}", a, rs.complete(&text)))
                        } else if failed.is_some() {
                            Err("WRONG-OK is_accepting succeeded on a failed matcher".into())
                        } else {
                            Ok("accepting".into())
                        }
                    }
                    Err(e) => Err(e.to_string()),
                },
            };
            match res {
                Ok(_) => {}
                Err(e) if e.starts_with("WRONG-") => {
                    if is_limit_error(&e) {
                        return Ok(());
                    }
                    let key = if e.starts_with("WRONG-OK") { "C18/ok-result-contradicts-reference" } else { "C18/legal-call-returned-error" };
                    return ctx.fail(key, || tag!(e));
                }
                Err(e) => {
                    if is_limit_error(&e) {
                        return Ok(());
                    }
                    // an error from the matcher: from now on it must keep failing with the same message
                    if failed.is_none() {
                        let msg = m.get_error();
                        if !m.is_error() || msg.is_none() {
                            return ctx.fail("C18/error-returned-but-matcher-not-failed", || tag!(format!("call failed ({}) but is_error={}", short_err(&e), m.is_error())));
                        }
                        failed = msg;
                    }
                }
            }
        }
        if had_stop && had_illegal {
            ctx.nontrivial(Fnv::new().str(&gtxt).str(&format!("{:?}", log)).finish());
        }
        Ok(())
    }

    fn run_loop(&self, rx: &Rx, render: u8, vs: &VocabSpec, ff: bool, calls: &[Call], ctx: &mut Ctx) -> R {
        let d = match Dfa::from_rx(rx) {
            Ok(d) if !d.is_empty_language() => d,
            _ => return Ok(()),
        };
        let (_, g) = pick_render(rx, render);
        let mut vs = vs.clone();
        vs.canonical = ff;
        let vocab = match vs.build() {
            Ok(v) => v,
            Err(_) => return Ok(()),
        };
        let n = vocab.len();
        let caps = InferenceCapabilities { ff_tokens: ff, ..Default::default() };
        let f = match factory_ext(&vocab, &[], caps, None) {
            Ok(f) => f,
            Err(_) => return Ok(()),
        };
        let tp = match f.create_parser(g.top()) {
            Ok(p) => p,
            Err(_) => return Ok(()),
        };
        let mut c = Constraint::new(tp);
        ctx.class(if ff { "kind:loop_ff" } else { "kind:loop" });
        let lang = RefLang::Dfa(&d);
        let rs = &lang;
        let gtxt = truncate_str(&g.text(), 300);
        let mut text: Vec<u8> = vec![];
        let mut eos_done = false;
        let mut have_mask: Option<Vec<u32>> = None; // words of the last sample mask
        let mut stopped = false;
        let mut errored = false;
        let mut log: Vec<String> = vec![];
        let mut had_illegal = false;
        let mut last_commit: Vec<u32> = vec![];
        for call in calls {
            // the sampling loop makes no promise about what follows a misuse beyond "error or unchanged":
            // the immediate result of the first illegal call is judged, then the case ends
            if had_illegal {
                break;
            }
            macro_rules! tag {
                ($x:expr) => {
                    format!("grammar {} ff={} calls {:?} text {:?}: {}", gtxt, ff, log, esc(&text), $x)
                };
            }
            log.push(format!("{:?}", call));
            ctx.eval(1);
            match call {
                Call::Mask | Call::MaskOrEos | Call::Accepting | Call::ConsumeSeq(..) => {
                    match c.compute_mask() {
                        Ok(r) => {
                            let r = r.clone();
                            if stopped {
                                return ctx.fail("C18/mask-after-stop-succeeded", || tag!("compute_mask returned Ok after a stop result"));
                            }
                            if errored {
                                // usable again: the answer must be right for the unchanged text
                            }
                            let model_stop = eos_done || rs.must_stop(&text);
                            if r.is_stop() != model_stop {
                                return ctx.fail("C18/stop-result-differs-from-reference", || tag!(format!("compute_mask is_stop={} but reference: complete={} extensible={} eos={}", r.is_stop(), rs.complete(&text), rs.extensible(&text), eos_done)));
                            }
                            if r.is_stop() {
                                stopped = true;
                                if !rs.complete(&text) {
                                    return ctx.fail("C18/stopped-on-incomplete-text", || tag!("stop reported but the assembled text is not a complete string"));
                                }
                                have_mask = None;
                                continue;
                            }
                            match &r.sample_mask {
                                Some(mask) => {
                                    // with ff_tokens the mask is exact here because forced tokens are returned by commit
                                    if let Some(dif) = mask_matches(mask, &expected_mask(&lang, &vocab, &text), &vocab) {
                                        // a canonical tokenizer may still narrow to the forced token
                                        let ids = mask_ids(mask, n);
                                        let want = expected_mask(&lang, &vocab, &text);
                                        let narrowed = ff && ids.len() == 1 && want[ids[0] as usize];
                                        if !narrowed {
                                            return ctx.fail("C18/ok-result-contradicts-reference", || tag!(format!("mask {}", dif)));
                                        }
                                    }
                                    have_mask = Some(mask_words(mask, n));
                                }
                                None => have_mask = None,
                            }
                        }
                        Err(e) => {
                            let e = e.to_string();
                            if is_limit_error(&e) {
                                return Ok(());
                            }
                            if !stopped && !errored {
                                return ctx.fail("C18/legal-call-returned-error", || tag!(format!("compute_mask failed: {}", short_err(&e))));
                            }
                        }
                    }
                }
                Call::Commit(p) | Call::CommitBad(p) | Call::CommitOutOfRange(p) | Call::CommitBlind(p) | Call::Validate(p, _) | Call::TryConsume(p, _) | Call::Rollback(p) => {
                    let want = expected_mask(&lang, &vocab, &text);
                    let in_mask = |t: u32| have_mask.as_ref().is_some_and(|w| w[t as usize / 32] >> (t % 32) & 1 == 1);
                    let (tok, legal): (Option<u32>, bool) = match call {
                        Call::Commit(_) | Call::Validate(..) | Call::TryConsume(..) | Call::Rollback(_) => {
                            let allowed: Vec<u32> = (0..n as u32).filter(|t| in_mask(*t) && !vocab.is_eos(*t) && vocab.is_regular(*t)).collect();
                            if allowed.is_empty() {
                                continue;
                            }
                            (Some(allowed[frac(*p, allowed.len())]), have_mask.is_some() && !stopped && !errored)
                        }
                        Call::CommitBlind(_) => {
                            // commit without a fresh mask
                            had_illegal = true;
                            let allowed: Vec<u32> = (0..n as u32).filter(|t| want[*t as usize] && !vocab.is_eos(*t)).collect();
                            if allowed.is_empty() || have_mask.is_some() {
                                continue;
                            }
                            (Some(allowed[frac(*p, allowed.len())]), false)
                        }
                        Call::CommitBad(_) => {
                            had_illegal = true;
                            let bad: Vec<u32> = (0..n as u32).filter(|t| !want[*t as usize] && vocab.is_regular(*t) && !vocab.bytes(*t).contains(&0xFF)).collect();
                            if bad.is_empty() {
                                continue;
                            }
                            (Some(bad[frac(*p, bad.len())]), false)
                        }
                        _ => {
                            had_illegal = true;
                            (Some(n as u32 + *p as u32), false)
                        }
                    };
                    let have_mask_was_none = have_mask.is_none();
                    if !legal {
                        had_illegal = true;
                    }
                    let r = c.commit_token(tok);
                    have_mask = None;
                    match r {
                        Ok(cr) => {
                            if stopped {
                                // documented: commit after a stop result just repeats the stop
                                if !cr.stop {
                                    return ctx.fail("C18/commit-after-stop-not-stop", || tag!("commit_token after stop returned a non-stop result"));
                                }
                                continue;
                            }
                            if !legal {
                                // an Ok for an illegal call is only acceptable if it reports nothing
                                if !cr.ff_tokens.is_empty() || cr.backtrack != 0 {
                                    // known finding: commit_token() without a fresh compute_mask() hands back
                                    // the previous commit's result once more instead of an error
                                    let key = if cr.ff_tokens == last_commit && have_mask_was_none { "C18/commit-without-mask-repeats-previous-result" } else { "C18/illegal-commit-accepted" };
                                    ctx.fail(key, || tag!(format!("commit_token({:?}) returned Ok({:?}) although the call is illegal here", tok, cr.ff_tokens)))?;
                                }
                                continue;
                            }
                            last_commit = cr.ff_tokens.clone();
                            for t in &cr.ff_tokens {
                                if vocab.is_eos(*t) {
                                    eos_done = true;
                                } else if vocab.is_regular(*t) {
                                    text.extend_from_slice(vocab.bytes(*t));
                                }
                            }
                            if cr.backtrack != 0 {
                                return Ok(());
                            }
                            // everything committed so far must still be a viable prefix
                            if !d.viable(&text) {
                                return ctx.fail("C18/assembled-text-not-viable", || tag!(format!("tokens returned by commit_token assemble to {:?}, which is not a prefix of any string of the grammar", esc(&text))));
                            }
                        }
                        Err(e) => {
                            let e = e.to_string();
                            if is_limit_error(&e) {
                                return Ok(());
                            }
                            if legal {
                                return ctx.fail("C18/legal-call-returned-error", || tag!(format!("commit_token({:?}) failed: {}", tok, short_err(&e))));
                            }
                            errored = true;
                        }
                    }
                }
                Call::CommitEos => {
                    let e = vocab.eos[0];
                    let in_mask = have_mask.as_ref().is_some_and(|w| w[e as usize / 32] >> (e % 32) & 1 == 1);
                    let legal = in_mask && !stopped && !errored;
                    if !legal {
                        had_illegal = true;
                    }
                    let r = c.commit_token(Some(e));
                    have_mask = None;
                    match r {
                        Ok(cr) => {
                            if stopped {
                                continue;
                            }
                            if !legal {
                                if !cr.ff_tokens.is_empty() {
                                    let key = if cr.ff_tokens == last_commit && !in_mask { "C18/commit-without-mask-repeats-previous-result" } else { "C18/illegal-commit-accepted" };
                                    ctx.fail(key, || tag!(format!("commit_token(EOS) returned Ok({:?}) although EOS is not in a fresh mask", cr.ff_tokens)))?;
                                }
                                continue;
                            }
                            last_commit = cr.ff_tokens.clone();
                            if cr.ff_tokens.contains(&e) {
                                eos_done = true;
                            }
                        }
                        Err(er) => {
                            if is_limit_error(&er.to_string()) {
                                return Ok(());
                            }
                            if legal {
                                return ctx.fail("C18/legal-call-returned-error", || tag!(format!("EOS commit failed: {}", short_err(&er.to_string()))));
                            }
                            errored = true;
                        }
                    }
                }
                Call::CommitNone => {
                    had_illegal = true;
                    let had = have_mask.is_some();
                    let r = c.commit_token(None);
                    have_mask = None;
                    if let Ok(cr) = &r {
                        if had && !stopped && !cr.ff_tokens.is_empty() {
                            return ctx.fail("C18/illegal-commit-accepted", || tag!("commit_token(None) returned tokens although a sampled token was required"));
                        }
                        if !had && !stopped && !cr.ff_tokens.is_empty() {
                            let key = if cr.ff_tokens == last_commit { "C18/commit-without-mask-repeats-previous-result" } else { "C18/illegal-commit-accepted" };
                            ctx.fail(key, || tag!(format!("commit_token(None) without a mask returned Ok({:?})", cr.ff_tokens)))?;
                        }
                    } else {
                        errored = true;
                    }
                }
                Call::RollbackTooFar => continue,
            }
        }
        if stopped && had_illegal {
            ctx.nontrivial(Fnv::new().str(&gtxt).str(&format!("{:?}", log)).finish());
        }
        Ok(())
    }

    #[allow(clippy::too_many_arguments)]
    fn run_stop(&self, extra: &[B], stop_strings: &[String], stop_regex: &Option<String>, stop_tokens: &[u8], text: &str, cuts: &[u16], specials_at: &[(u16, u8)], ctx: &mut Ctx) -> R {
        let vs = VocabSpec { base: Base::Byte, extra: extra.to_vec(), specials: vec!["<|eos|>".into(), "<|stop|>".into(), "<|tool|>".into(), "<a>".into()], n_eos: 1, pad_to: 0, canonical: false };
        let vocab = match vs.build() {
            Ok(v) => v,
            Err(_) => return Ok(()),
        };
        let n_reg = 256 + extra.len();
        let special = |k: u8| (n_reg + (k as usize % 4)) as u32;
        let stop_toks: Vec<u32> = stop_tokens.iter().map(|k| special(*k)).collect();
        let mut sc = match StopController::new(vocab.env.clone(), stop_toks.clone(), stop_regex.clone(), stop_strings.to_vec()) {
            Ok(s) => s,
            Err(_) => {
                ctx.class("stop_controller_rejected");
                return Ok(());
            }
        };
        ctx.class("kind:stop_controller");
        // token sequence: segment the text (cuts may fall inside characters), specials at char boundaries
        let tb = text.as_bytes();
        let mut boundaries: Vec<usize> = cuts.iter().map(|c| frac(*c, tb.len() + 1)).collect();
        boundaries.push(0);
        boundaries.push(tb.len());
        let mut spec_pos: Vec<(usize, u32)> = specials_at
            .iter()
            .map(|(p, k)| {
                let mut i = frac(*p, tb.len() + 1);
                while !text.is_char_boundary(i) {
                    i -= 1;
                }
                (i, special(*k))
            })
            .collect();
        spec_pos.sort();
        for (i, _) in &spec_pos {
            boundaries.push(*i);
        }
        boundaries.sort();
        boundaries.dedup();
        let mut seq: Vec<u32> = vec![];
        for w in boundaries.windows(2) {
            for (p, t) in &spec_pos {
                if *p == w[0] {
                    seq.push(*t);
                }
            }
            // greedy tokens within the piece
            seq.extend(vocab.trie().greedy_tokenize(&tb[w[0]..w[1]]));
        }
        for (p, t) in &spec_pos {
            if *p == tb.len() {
                seq.push(*t);
            }
        }
        // ---- reference: decoded text piece by piece; matches cannot span special tokens
        let alts: Vec<regex::Regex> = {
            let mut v = vec![];
            for s in stop_strings {
                match regex::Regex::new(&format!("^(?s:{})$", s)) {
                    Ok(r) => v.push(r),
                    Err(_) => return Ok(()),
                }
            }
            if let Some(r) = stop_regex {
                match regex::Regex::new(&format!("^(?s:{})$", r)) {
                    Ok(r) => v.push(r),
                    Err(_) => return Ok(()),
                }
            }
            v
        };
        let bounded_len: Option<usize> = {
            let mut l = stop_strings.iter().map(|s| s.len()).max().unwrap_or(0);
            let mut bounded = true;
            if let Some(r) = stop_regex {
                if r.contains('+') || r.contains('*') {
                    bounded = false;
                } else {
                    l = l.max(r.len() * 4);
                }
            }
            if bounded {
                Some(l)
            } else {
                None
            }
        };
        let mut full = String::new(); // everything decoded so far
        let mut seg_start = 0usize; // start of the current match segment inside `full`
        let mut expected_stop: Option<Vec<usize>> = None; // acceptable output lengths at the stop
        let mut outputs = String::new();
        let mut stopped_at: Option<usize> = None;
        let mut split_match = false;
        for (ti, &t) in seq.iter().enumerate() {
            let chunk = sc.commit_token(t);
            ctx.eval(1);
            if stopped_at.is_some() {
                if !chunk.is_empty() || !sc.is_stopped() {
                    return ctx.fail("C18/stop-controller-output-after-stop", || format!("stops {:?}/{:?}/{:?} tokens {:?}: token #{} returned {:?} after the stop", stop_strings, stop_regex, stop_toks, seq, ti, chunk));
                }
                continue;
            }
            outputs.push_str(&chunk);
            // update the reference
            if stop_toks.contains(&t) {
                expected_stop = Some(vec![full.len()]);
            } else if vocab.is_special(t) {
                full.push_str(std::str::from_utf8(&vocab.bytes(t)[1..]).unwrap());
                seg_start = full.len();
            } else {
                let before = full.len();
                // bytes of this token (the text is valid UTF-8 as a whole; work on bytes)
                let mut fb = full.clone().into_bytes();
                fb.extend_from_slice(vocab.bytes(t));
                // earliest end e in the newly added region where some alternative matches text[s..e]
                'outer: for e in (before + 1)..=fb.len() {
                    let mut starts = vec![];
                    for s in seg_start..e {
                        if let Ok(sub) = std::str::from_utf8(&fb[s..e]) {
                            if alts.iter().any(|r| r.is_match(sub)) {
                                starts.push(s);
                            }
                        }
                    }
                    if !starts.is_empty() {
                        expected_stop = Some(starts.clone());
                        if starts.iter().any(|s| *s < before) {
                            split_match = true;
                        }
                        break 'outer;
                    }
                }
                full = String::from_utf8_lossy(&fb).to_string();
                if std::str::from_utf8(&fb).is_err() {
                    // a token ended inside a character: keep the byte view for the next round
                    // (rebuild `full` from the token sequence instead)
                    let mut fb2 = vec![];
                    for &x in &seq[..=ti] {
                        if stop_toks.contains(&x) {
                            break;
                        }
                        if vocab.is_special(x) {
                            fb2.extend_from_slice(&vocab.bytes(x)[1..]);
                        } else {
                            fb2.extend_from_slice(vocab.bytes(x));
                        }
                    }
                    full = unsafe { String::from_utf8_unchecked(fb2) };
                }
            }
            if let Some(starts) = &expected_stop {
                stopped_at = Some(ti);
                if !sc.is_stopped() {
                    return ctx.fail("C18/stop-controller-missed-stop", || format!("stops {:?}/{:?}/{:?} tokens {:?} ({:?}): a stop occurs at token #{} but the controller is not stopped", stop_strings, stop_regex, stop_toks, seq, text, ti));
                }
                let fbytes = full.as_bytes();
                let ok = starts.iter().any(|s| outputs.as_bytes() == &fbytes[..(*s).min(fbytes.len())]);
                if !ok {
                    return ctx.fail("C18/stop-controller-wrong-text-at-stop", || {
                        format!("stops {:?}/{:?}/{:?} tokens {:?}: output {:?}, expected the decoded text up to one of the match starts {:?} of {:?}", stop_strings, stop_regex, stop_toks, seq, outputs, starts, full)
                    });
                }
            } else {
                if sc.is_stopped() {
                    return ctx.fail("C18/stop-controller-stopped-without-stop", || format!("stops {:?}/{:?}/{:?} tokens {:?}: stopped after token #{} although no stop occurred in {:?}", stop_strings, stop_regex, stop_toks, seq, ti, full));
                }
                let fb = full.as_bytes();
                if !fb.starts_with(outputs.as_bytes()) {
                    return ctx.fail("C18/stop-controller-output-not-prefix", || format!("stops {:?}/{:?} tokens {:?}: output so far {:?} is not a prefix of the decoded text {:?}", stop_strings, stop_regex, seq, outputs, full));
                }
                if let Some(l) = bounded_len {
                    let withheld = fb.len() - outputs.len();
                    if withheld > l + 3 {
                        return ctx.fail("C18/stop-controller-withholds-too-much", || format!("stops {:?}/{:?} tokens {:?}: {} bytes withheld (longest stop {} bytes)", stop_strings, stop_regex, seq, withheld, l));
                    }
                }
            }
        }
        if stopped_at.is_some() && split_match {
            ctx.nontrivial(Fnv::new().str(text).str(&format!("{:?}{:?}{:?}{:?}", stop_strings, stop_regex, seq, stop_toks)).finish());
            ctx.class("stop:match_split_across_tokens");
        }
        if stopped_at.is_some() {
            ctx.class("stop:stopped");
        }
        Ok(())
    }
}

fn stop_text() -> impl Strategy<Value = String> {
    proptest::collection::vec(prop_oneof![Just("a"), Just("b"), Just("c"), Just("ab"), Just("abc"), Just("bc"), Just(" "), Just("x"), Just("é"), Just("€"), Just("😀"), Just("STOP"), Just("\n"), Just("12"), Just("7")], 0..24)
        .prop_map(|v| v.concat())
}

impl Prop for C18 {
    type Case = Case;
    const ID: &'static str = "C18";
    fn rule(&self) -> String {
        "case = one of: (a) Matcher or (b) Constraint (with / without ff_tokens) over a generated regex grammar and synthetic vocabulary, driven by a \
         random call sequence that mixes legal calls with illegal ones (token not in mask, id out of range, commit without mask / with None, EOS in \
         a non-accepting state, rollback too far, any call after stop or failure); the model tracks {running, stopped, failed} and uses the \
         reference DFA of the regex for 'complete' and 'extensible': stop must be reported exactly when the text is complete and cannot be \
         extended or EOS was committed while accepting, every Ok result must agree with the reference, after stop only the EOS set / zero / \
         errors, after an error the matcher stays failed with the same message; (c) StopController with stop tokens, 0-3 stop strings \
         (overlapping, multi-byte), optional stop regex, a text cut into tokens at arbitrary byte positions with special tokens in between: \
         output must equal the decoded text up to a match start of the earliest-ending stop, be a prefix before that, withhold at most the \
         longest stop + 3 bytes, and be empty afterwards. evaluation = one API call checked; non-trivial = sequence containing a stop and an \
         illegal call, or a stop match split across tokens; distinct by case hash"
            .into()
    }
    fn assumptions(&self) -> Vec<String> {
        vec![
            "stop strings are drawn from characters without regex meaning (the controller compiles them as regexes)".into(),
            "with overlapping stop candidates any match start ending at the earliest end is accepted".into(),
            "tokens containing the marker byte are outside the mask comparisons".into(),
        ]
    }
    fn cases(&self, tier: Tier) -> u32 {
        tier.pick(400, 4000)
    }
    fn strategy(&self, _tier: Tier) -> BoxedStrategy<Case> {
        let rxg = (rx_strategy(RxOpts { depth: 3, max_weight: 50, and_not: false, substr: false }), any::<u8>()).prop_flat_map(|(rx, sel)| {
            let (_, g) = pick_render(&rx, sel);
            (Just(rx), Just(sel), syn_vocab_strategy(g, false), proptest::collection::vec(call_strategy(), 3..40))
        });
        let stopc = (
            proptest::collection::vec(prop_oneof![Just("ab"), Just("bc"), Just("abc"), Just("ST"), Just("OP"), Just("é"), Just(" a"), Just("c "), Just("12")].prop_map(|s: &str| B(s.as_bytes().to_vec())), 0..6),
            proptest::collection::vec(prop_oneof![Just("abc"), Just("bc"), Just("STOP"), Just("c"), Just("é€"), Just("x "), Just("b c"), Just("😀"), Just("12"), Just("a\n")].prop_map(|s: &str| s.to_string()), 0..4),
            proptest::option::weighted(0.4, prop_oneof![Just("[0-9]{2}"), Just("x|bc"), Just("ab+c"), Just("é+"), Just("c{2,3}"), Just("STO?P")].prop_map(|s: &str| s.to_string())),
            proptest::collection::vec(0u8..4, 0..2),
            stop_text(),
            proptest::collection::vec(any::<u16>(), 0..12),
            proptest::collection::vec((any::<u16>(), 0u8..4), 0..3),
        );
        prop_oneof![
            3 => rxg.clone().prop_map(|(rx, render, vocab, calls)| Case::Matcher { rx, render, vocab, calls }),
            2 => (cfg_case(), proptest::collection::vec(call_strategy(), 3..40)).prop_flat_map(|(cfg, calls)| {
                let g = cfg.build().0;
                (Just(cfg), syn_vocab_strategy(g, false), Just(calls))
            }).prop_map(|(cfg, vocab, calls)| Case::MatcherCfg { cfg, vocab, calls }),
            3 => (rxg, any::<bool>()).prop_map(|((rx, render, vocab, calls), ff)| Case::Loop { rx, render, vocab, ff, calls }),
            3 => stopc.prop_map(|(vocab_extra, stop_strings, stop_regex, stop_tokens, text, cuts, specials_at)| Case::Stop { vocab_extra, stop_strings, stop_regex, stop_tokens, text, cuts, specials_at }),
            1 => (
                proptest::collection::vec(prop_oneof![Just("abc"), Just("é€"), Just("STOP")].prop_map(|s: &str| s.to_string()), 0..3),
                proptest::option::weighted(0.7, prop_oneof![Just("[0-9]{2}"), Just("x|bc"), Just("é+"), Just("STO?P")].prop_map(|s: &str| s.to_string())),
                proptest::collection::vec(prop_oneof![4 => any::<u8>(), 2 => Just(b'a'), 1 => Just(0x80u8), 1 => Just(0xC3u8), 1 => Just(0xA9u8), 1 => Just(b'x')], 1..24),
            )
                .prop_map(|(stop_strings, stop_regex, bytes)| Case::StopBytes { stop_strings, stop_regex, bytes: B(bytes) }),
        ]
        .boxed()
    }
    fn run(&self, case: &Case, ctx: &mut Ctx) -> R {
        match case {
            Case::Matcher { rx, render, vocab, calls } => self.run_matcher(rx, *render, vocab, calls, ctx),
            Case::MatcherCfg { cfg, vocab, calls } => self.run_matcher_cfg(cfg, vocab, calls, ctx),
            Case::Loop { rx, render, vocab, ff, calls } => self.run_loop(rx, *render, vocab, *ff, calls, ctx),
            Case::Stop { vocab_extra, stop_strings, stop_regex, stop_tokens, text, cuts, specials_at } => self.run_stop(vocab_extra, stop_strings, stop_regex, stop_tokens, text, cuts, specials_at, ctx),
            Case::StopBytes { stop_strings, stop_regex, bytes } => {
                let vocab = match VocabSpec::byte().build() {
                    Ok(v) => v,
                    Err(_) => return Ok(()),
                };
                let mut sc = match StopController::new(vocab.env.clone(), vec![], stop_regex.clone(), stop_strings.clone()) {
                    Ok(s) => s,
                    Err(_) => return Ok(()),
                };
                ctx.class("kind:stop_controller_raw_bytes");
                for (i, b) in bytes.0.iter().enumerate() {
                    if sc.is_stopped() {
                        break;
                    }
                    let r = std::panic::catch_unwind(std::panic::AssertUnwindSafe(|| sc.commit_token(*b as u32)));
                    ctx.eval(1);
                    if *b >= 0x80 {
                        ctx.nontrivial(Fnv::new().bytes(&bytes.0[..=i]).str(&format!("{:?}{:?}", stop_regex, stop_strings)).finish());
                    }
                    match r {
                        Err(_) => {
                            return ctx.fail("C18/stop-controller-panicked", || format!("stops {:?}/{:?}: commit_token panicked on byte token {:#04x} after bytes {:?}", stop_strings, stop_regex, b, esc(&bytes.0[..i])));
                        }
                        // the returned text is a lossy decoding (U+FFFD for bytes that are not UTF-8): its length says nothing
                        Ok(_) => {}
                    }
                }
                Ok(())
            }
        }
    }
}

#[allow(dead_code)]
fn _unused(_: GrammarSpec) {}
