//! C19 — special tokens are allowed only where the grammar names them.

use crate::engine::{factory, is_limit_error, matcher, short_err, GrammarSpec};
use crate::gen::any_grammar;
use crate::runner::{Ctx, Prop, Tier, R};
use crate::util::{esc, frac, truncate_str, Fnv, B};
use crate::vocab::{Base, Vocab, VocabSpec};
use crate::walk::{mask_ids, steps, Step};
use proptest::prelude::*;
use serde::{Deserialize, Serialize};
use serde_json::json;
use std::collections::BTreeSet;

#[derive(Clone, Debug, Serialize, Deserialize, PartialEq)]
pub enum RefSpec {
    /// `<name>` (index into the vocabulary's special names)
    Name(usize),
    /// `<[id]>`
    Id(u32),
    /// `<[a-b,c-d]>`
    Ranges(Vec<(u32, u32)>),
    /// `<[^a-b,c]>`
    NotRanges(Vec<(u32, u32)>),
    /// `<[*]>`
    All,
}

#[derive(Clone, Debug, Serialize, Deserialize, PartialEq)]
pub enum Seg {
    Text(String),
    /// text matched by a class that includes `<`, `|`, `>` (one or more)
    Angle,
    Ref(RefSpec),
}

#[derive(Clone, Debug, Serialize, Deserialize)]
pub enum Kind {
    /// sequence template with token references
    Template(Vec<Seg>),
    /// any text grammar (must never allow special tokens)
    Text(GrammarSpec),
    /// `start: "<lit>" ( <ref> | "<txt>" ) "<tail>"` under a *canonical* tokenizer that has tokens gluing `lit` to the
    /// beginning of `txt`: the literal is held back for token healing while the mask is computed
    Alt { lit: String, r: RefSpec, txt: String, tail: String },
    /// `start: <[a0-a1]> "x" | <[b0-b1]> "y" | "e" "z"`: token ids that belong to two references (or to a reference and
    /// to text) must keep every alternative they belong to
    Overlap { a: (u32, u32), b: (u32, u32) },
    /// `start: "<lit>" ( <ref1> | <ref2> | <ref3> ... ) "<tail>"` under a canonical tokenizer: a position where only token
    /// references are possible (the marker byte is forced there) and several of them name one token each
    RefChoice { lit: String, refs: Vec<RefSpec>, tail: String },
}

#[derive(Clone, Debug, Serialize, Deserialize)]
pub struct Case {
    pub kind: Kind,
    pub vocab: VocabSpec,
    pub walk: Vec<Step>,
}

pub struct C19;

const SPECIAL_NAMES: &[&str] = &["<|eos|>", "<|tool|>", "<a>", "<|end|>", "<think>", "</think>"];

fn lookalike_vocab() -> BoxedStrategy<VocabSpec> {
    (proptest::sample::subsequence(vec!["<|tool|>", "<a>", "<|eos|>", "<|", "|>", "<", ">", "<[3]>", "<[", "]>", "tool", "<think>", "</", "a>", "<|tool|>x", "x<a>"], 0..10), 0usize..4, 1usize..=2, 1usize..SPECIAL_NAMES.len())
        .prop_map(|(plain, pad, n_eos, n_spec)| {
            let extra: Vec<B> = plain.into_iter().map(|s| B(s.as_bytes().to_vec())).collect();
            let mut specials: Vec<String> = SPECIAL_NAMES[..=n_spec.max(n_eos)].iter().map(|s| s.to_string()).collect();
            if n_eos == 2 {
                let j = 3.min(specials.len() - 1);
                specials.swap(1, j);
            }
            let n = 256 + extra.len() + specials.len();
            let pad_to = match pad {
                0 => 0,
                1 => n.div_ceil(32) * 32,
                2 => n.div_ceil(32) * 32 + 1,
                _ => n + 3,
            };
            VocabSpec { base: Base::Byte, extra, specials, n_eos: n_eos.min(2), pad_to, canonical: false }
        })
        .boxed()
}

fn ranges_strategy() -> impl Strategy<Value = Vec<(u32, u32)>> {
    proptest::collection::vec((0u32..300, 0u32..40), 1..4).prop_map(|v| v.into_iter().map(|(a, d)| (a, a + d)).collect())
}

fn seg_strategy() -> impl Strategy<Value = Seg> {
    prop_oneof![
        4 => prop_oneof![Just("a"), Just("bc"), Just("<|tool|>"), Just("<a>"), Just("<"), Just("x<|"), Just("|>y"), Just("<[3]>"), Just("é")].prop_map(|s| Seg::Text(s.to_string())),
        1 => Just(Seg::Angle),
        5 => prop_oneof![
            3 => (0usize..SPECIAL_NAMES.len()).prop_map(RefSpec::Name),
            2 => (0u32..300).prop_map(RefSpec::Id),
            2 => ranges_strategy().prop_map(RefSpec::Ranges),
            1 => ranges_strategy().prop_map(RefSpec::NotRanges),
            1 => Just(RefSpec::All),
        ].prop_map(Seg::Ref),
    ]
}

fn render_ref(r: &RefSpec, vocab: &Vocab) -> Option<String> {
    let rs = |v: &Vec<(u32, u32)>| v.iter().map(|(a, b)| if a == b { format!("{}", a) } else { format!("{}-{}", a, b) }).collect::<Vec<_>>().join(",");
    Some(match r {
        RefSpec::Name(i) => {
            let name = SPECIAL_NAMES[*i];
            if !vocab.spec.specials.iter().any(|s| s == name) {
                return None;
            }
            name.to_string()
        }
        RefSpec::Id(i) => format!("<[{}]>", i),
        RefSpec::Ranges(v) => format!("<[{}]>", rs(v)),
        RefSpec::NotRanges(v) => format!("<[^{}]>", rs(v)),
        RefSpec::All => "<[*]>".to_string(),
    })
}

/// the set of token ids a reference denotes (relative to the vocabulary size)
fn denote(r: &RefSpec, vocab: &Vocab) -> BTreeSet<u32> {
    let n = vocab.len() as u32;
    let in_ranges = |v: &Vec<(u32, u32)>, t: u32| v.iter().any(|(a, b)| *a <= t && t <= *b);
    match r {
        RefSpec::Name(i) => {
            let mut b = vec![0xFFu8];
            b.extend_from_slice(SPECIAL_NAMES[*i].as_bytes());
            (0..n).filter(|t| vocab.bytes(*t) == &b[..]).collect()
        }
        RefSpec::Id(i) => (0..n).filter(|t| t == i).collect(),
        RefSpec::Ranges(v) => (0..n).filter(|t| in_ranges(v, *t)).collect(),
        RefSpec::NotRanges(v) => (0..n).filter(|t| !in_ranges(v, *t)).collect(),
        RefSpec::All => (0..n).collect(),
    }
}

fn template_grammar(segs: &[Seg], vocab: &Vocab) -> Option<String> {
    let mut parts = vec![];
    for s in segs {
        parts.push(match s {
            Seg::Text(t) => serde_json::to_string(t).unwrap(),
            Seg::Angle => "ANGLE".to_string(),
            Seg::Ref(r) => render_ref(r, vocab)?,
        });
    }
    Some(format!("start: {}\nANGLE: /[<|>a]+!/\n", parts.join(" ")))
}

fn is_markerish(vocab: &Vocab, t: u32) -> bool {
    let b = vocab.bytes(t);
    b.is_empty() || b[0] == 0xFF
}

/// Two token-range alternatives and one text alternative over the byte tokens 'a'..'j': after committing token t the
/// next mask must allow exactly the continuations of every alternative t belongs to.
fn run_overlap(case: &Case, a: (u32, u32), b: (u32, u32), ctx: &mut Ctx) -> R {
    let mut vs = case.vocab.clone();
    vs.canonical = false;
    let vocab = match vs.build() {
        Ok(v) => v,
        Err(_) => return Ok(()),
    };
    let g = GrammarSpec::Lark(format!("start: <[{}-{}]> \"x\" | <[{}-{}]> \"y\" | \"e\" \"z\"\n", a.0, a.1, b.0, b.1));
    let f = factory(&vocab);
    let m0 = matcher(&f, &g);
    if m0.is_error() {
        ctx.class("compile_error");
        return Ok(());
    }
    ctx.class("overlapping_references");
    let gtxt = g.text();
    for t in 97u32..=110 {
        let in_a = a.0 <= t && t <= a.1;
        let in_b = b.0 <= t && t <= b.1;
        let in_txt = t == b'e' as u32;
        let mut m = m0.deep_clone();
        let mask0 = match m.compute_mask() {
            Ok(x) => x,
            Err(_) => return Ok(()),
        };
        ctx.eval(1);
        if mask0.is_allowed(t) != (in_a || in_b || in_txt) {
            return ctx.fail("C19/reference-position-set-mismatch", || format!("grammar {}: first mask: token {} allowed={} expected {}", gtxt, t, mask0.is_allowed(t), in_a || in_b || in_txt));
        }
        if !(in_a || in_b || in_txt) {
            continue;
        }
        if m.consume_token(t).is_err() {
            return ctx.fail("C19/mask-token-fails-to-commit", || format!("grammar {}: token {} fails to commit", gtxt, t));
        }
        let mask = match m.compute_mask() {
            Ok(x) => x,
            Err(e) => return ctx.fail("C19/token-in-two-references-follows-one-alternative", || format!("grammar {}: after token {}: mask failed: {}", gtxt, t, short_err(&e.to_string()))),
        };
        if (in_a as u8 + in_b as u8 + in_txt as u8) >= 2 {
            ctx.nontrivial(Fnv::new().str(&gtxt).u64(t as u64).finish());
        }
        for (c, want) in [(b'x', in_a), (b'y', in_b), (b'z', in_txt)] {
            ctx.eval(1);
            let got = mask.is_allowed(c as u32);
            if got != want {
                return ctx.fail("C19/token-in-two-references-follows-one-alternative", || {
                    format!("grammar {}: after token {} (in first range: {}, in second range: {}, text 'e': {}): {:?} allowed={} expected {}", gtxt, t, in_a, in_b, in_txt, c as char, got, want)
                });
            }
        }
    }
    Ok(())
}

/// Canonical tokenizer, literal followed by (token reference | text): a special / marker token may be in the mask
/// only if committing it succeeds (C01's clause, for the tokens this property is about), and never before the
/// literal's bytes have been emitted.
fn run_ref_choice(case: &Case, lit: &str, refs: &[RefSpec], tail: &str, ctx: &mut Ctx) -> R {
    let mut vs = case.vocab.clone();
    vs.canonical = true;
    let vocab = match vs.build() {
        Ok(v) => v,
        Err(_) => return Ok(()),
    };
    let n = vocab.len();
    let mut rendered = vec![];
    let mut want: BTreeSet<u32> = BTreeSet::new();
    for r in refs {
        match render_ref(r, &vocab) {
            Some(t) => rendered.push(t),
            None => return Ok(()),
        }
        want.extend(denote(r, &vocab).into_iter().filter(|t| (*t as usize) < n));
    }
    let q = |x: &str| serde_json::to_string(x).unwrap();
    let g = GrammarSpec::Lark(format!("start: {} ( {} ) {}\n", q(lit), rendered.join(" | "), q(tail)));
    let f = factory(&vocab);
    let mut m = matcher(&f, &g);
    if m.is_error() {
        ctx.class("compile_error");
        return Ok(());
    }
    ctx.class("choice_of_references(canonical)");
    let gtxt = g.text();
    // commit the literal through the masks
    let mut emitted: Vec<u8> = vec![];
    let mut toks: Vec<u32> = vec![];
    while emitted.len() < lit.len() {
        let mask = match m.compute_mask() {
            Ok(x) => x,
            Err(_) => return Ok(()),
        };
        let ids: Vec<u32> = mask_ids(&mask, n).into_iter().filter(|t| !is_markerish(&vocab, *t)).collect();
        let pick = ids.iter().cloned().find(|t| lit.as_bytes()[emitted.len()..].starts_with(vocab.bytes(*t)) && !vocab.bytes(*t).is_empty());
        let t = match pick {
            Some(t) => t,
            None => return Ok(()),
        };
        if m.consume_token(t).is_err() {
            return Ok(());
        }
        toks.push(t);
        emitted.extend_from_slice(vocab.bytes(t));
    }
    // the reference position: the mask must be exactly the union of what the references denote
    let mask = match m.compute_mask() {
        Ok(x) => x,
        Err(e) => {
            if is_limit_error(&e.to_string()) {
                return Ok(());
            }
            return ctx.fail("C19/reference-position-mask-differs", || format!("grammar {} after tokens {:?}: compute_mask failed: {}", gtxt, toks, short_err(&e.to_string())));
        }
    };
    let got: BTreeSet<u32> = mask_ids(&mask, n).into_iter().collect();
    ctx.eval(n as u64);
    ctx.nontrivial(Fnv::new().str(&gtxt).finish());
    if got != want {
        return ctx.fail("C19/reference-position-mask-differs", || format!("grammar {} after tokens {:?}: mask {:?}, the references denote {:?}", gtxt, toks, got, want));
    }
    for &t in &want {
        let mut c = m.deep_clone();
        ctx.eval(1);
        if let Err(e) = c.consume_token(t) {
            // known finding: the references denote exactly one token and it is an ordinary (non-special) one: the
            // canonical-tokenizer path forces the marker form "\xFF[id]" as text and then rejects the token's own bytes
            let es = e.to_string();
            let key = if want.len() == 1 && !is_markerish(&vocab, t) && es.contains("forced bytes: got") {
                "C19/forced-id-reference-to-ordinary-token-does-not-commit"
            } else {
                "C19/reference-position-mask-differs"
            };
            return ctx.fail(key, || format!("grammar {} after tokens {:?}: denoted token {} {:?} does not commit: {}", gtxt, toks, t, esc(vocab.bytes(t)), short_err(&es)));
        }
    }
    Ok(())
}

fn run_alt(case: &Case, lit: &str, r: &RefSpec, txt: &str, tail: &str, ctx: &mut Ctx) -> R {
    let mut vs = case.vocab.clone();
    vs.canonical = true;
    for k in 1..=txt.len() {
        if txt.is_char_boundary(k) {
            vs.extra.push(B(format!("{}{}", lit, &txt[..k]).into_bytes()));
        }
    }
    let vocab = match vs.build() {
        Ok(v) => v,
        Err(_) => return Ok(()),
    };
    let n = vocab.len();
    let rtxt = match render_ref(r, &vocab) {
        Some(t) => t,
        None => return Ok(()),
    };
    let q = |x: &str| serde_json::to_string(x).unwrap();
    let g = GrammarSpec::Lark(format!("start: {} ( {} | {} ) {}\n", q(lit), rtxt, q(txt), q(tail)));
    let f = factory(&vocab);
    let mut m = matcher(&f, &g);
    if m.is_error() {
        ctx.class("compile_error");
        return Ok(());
    }
    ctx.class("alt_after_literal(canonical)");
    let gtxt = g.text();
    let mut toks: Vec<u32> = vec![];
    let mut emitted: Vec<u8> = vec![];
    for st in &case.walk {
        if m.is_stopped() {
            break;
        }
        let mask = match m.compute_mask() {
            Ok(x) => x,
            Err(_) => break,
        };
        for t in 0..n as u32 {
            if !is_markerish(&vocab, t) || vocab.is_eos(t) || !mask.is_allowed(t) {
                continue;
            }
            ctx.eval(1);
            ctx.nontrivial(Fnv::new().str(&gtxt).u64(t as u64).u64(toks.len() as u64).finish());
            let c = m.deep_clone().consume_token(t);
            if emitted.len() < lit.len() || c.is_err() {
                return ctx.fail("C19/special-token-in-mask-before-its-position", || {
                    format!("grammar {} after tokens {:?} (text {:?}): special token {} {:?} is in the mask; commit: {:?}", gtxt, toks, esc(&emitted), t, esc(vocab.bytes(t)), c.err().map(|e| short_err(&e.to_string())))
                });
            }
        }
        let ids = mask_ids(&mask, n);
        if ids.is_empty() {
            break;
        }
        let t = ids[frac(st.pick, ids.len())];
        if m.consume_token(t).is_err() {
            if m.get_error().is_some_and(|e| is_limit_error(&e)) {
                return Ok(());
            }
            return ctx.fail("C19/mask-token-fails-to-commit", || format!("grammar {} after tokens {:?}: token {} fails to commit", gtxt, toks, t));
        }
        toks.push(t);
        if !is_markerish(&vocab, t) {
            emitted.extend_from_slice(vocab.bytes(t));
        }
    }
    Ok(())
}

impl Prop for C19 {
    type Case = Case;
    const ID: &'static str = "C19";
    fn rule(&self) -> String {
        "case = (vocabulary with special tokens and plain tokens spelling the same names (<|tool|>, <a>, <[3]>, …), and either a sequence \
         template mixing literals / a class containing < | > / token references <name>, <[id]>, <[a-b,…]>, <[^…]>, <[*]>, or any generated text \
         grammar); evaluation = one token id checked at one visited state (text position: no special/marker/empty token in the mask and \
         validate/commit reject it; reference position: mask == exactly the denoted id set, validate/commit agree), or one tokenisation check; \
         non-trivial = visited text state in which a plain token spelling a special token's name (or a prefix of it) is allowed; distinct by \
         hash(grammar, vocabulary, committed tokens)"
            .into()
    }
    fn assumptions(&self) -> Vec<String> {
        vec![
            "EOS ids are allowed at text positions exactly when the state is accepting (C01's clause); they are exempt from the 'no special token' rule there".into(),
            "states in which the raw byte 0xFF can be committed (bare ~X, allow_invalid_utf8) are a separately labelled class covered by a known finding".into(),
        ]
    }
    fn cases(&self, tier: Tier) -> u32 {
        tier.pick(300, 3000)
    }
    fn strategy(&self, _tier: Tier) -> BoxedStrategy<Case> {
        let textg = prop_oneof![
            3 => any_grammar(),
            1 => Just(GrammarSpec::Lark("start: \"<|tool|>\" /[a-z<|>]+/ \"<a>\"\n".into())),
            1 => Just(GrammarSpec::Json(json!({"type":"object","properties":{"<|tool|>":{"const":"<a>"},"<a>":{"type":"string"}},"required":["<|tool|>"]}))),
            1 => Just(GrammarSpec::Regex("<\\|tool\\|>|<a>+|<\\[3\\]>".into())),
            1 => Just(GrammarSpec::Lark("%llguidance {\"allow_invalid_utf8\": true}\nstart: /[a-z]+/ \"<a>\"\n".into())),
        ];
        let refs = prop_oneof![
            3 => (0usize..SPECIAL_NAMES.len()).prop_map(RefSpec::Name),
            2 => (250u32..270).prop_map(RefSpec::Id),
            2 => ranges_strategy().prop_map(RefSpec::Ranges),
            1 => ranges_strategy().prop_map(RefSpec::NotRanges),
        ];
        let alt = (prop_oneof![Just("a"), Just("ab"), Just("x<"), Just("é")], refs, prop_oneof![Just("b"), Just("bc"), Just("|>")], prop_oneof![Just("c"), Just(""), Just("<a>")])
            .prop_map(|(lit, r, txt, tail)| Kind::Alt { lit: lit.to_string(), r, txt: txt.to_string(), tail: tail.to_string() });
        let overlap = (97u32..104, 0u32..6, 97u32..104, 0u32..6).prop_map(|(a, da, b, db)| Kind::Overlap { a: (a, a + da), b: (b, b + db) });
        let single = prop_oneof![
            3 => (0usize..SPECIAL_NAMES.len()).prop_map(RefSpec::Name),
            3 => (250u32..270).prop_map(RefSpec::Id),
            1 => ranges_strategy().prop_map(RefSpec::Ranges),
        ];
        let choice = (prop_oneof![Just("a"), Just("ab"), Just("é")], proptest::collection::vec(single, 2..6), prop_oneof![Just("z"), Just("<a>")])
            .prop_map(|(lit, refs, tail)| Kind::RefChoice { lit: lit.to_string(), refs, tail: tail.to_string() });
        let kind = prop_oneof![
            2 => choice,
            6 => proptest::collection::vec(seg_strategy(), 1..6).prop_map(Kind::Template),
            4 => textg.prop_map(Kind::Text),
            2 => alt,
            1 => overlap,
        ];
        (kind, lookalike_vocab(), steps(24)).prop_map(|(kind, vocab, walk)| Case { kind, vocab, walk }).boxed()
    }

    fn run(&self, case: &Case, ctx: &mut Ctx) -> R {
        if let Kind::Alt { lit, r, txt, tail } = &case.kind {
            return run_alt(case, lit, r, txt, tail, ctx);
        }
        if let Kind::Overlap { a, b } = &case.kind {
            return run_overlap(case, *a, *b, ctx);
        }
        if let Kind::RefChoice { lit, refs, tail } = &case.kind {
            return run_ref_choice(case, lit, refs, tail, ctx);
        }
        let vocab = match case.vocab.build() {
            Ok(v) => v,
            Err(_) => return Ok(()),
        };
        let n = vocab.len();
        // ---- tokenisation clause
        for name in &vocab.spec.specials {
            let text = format!("x{}y", name);
            let toks = vocab.env.tokenize_bytes(text.as_bytes());
            ctx.eval(1);
            if toks.iter().any(|t| is_markerish(&vocab, *t)) || vocab.decode(&toks) != text.as_bytes() {
                return ctx.fail("C19/name-in-text-tokenised-as-special", || format!("tokenize_bytes({:?}) = {:?}", text, toks));
            }
            let mut marked = b"x\xFF".to_vec();
            marked.extend_from_slice(name.as_bytes());
            marked.push(b'y');
            let (toks, _) = vocab.env.tokenize_bytes_marker(&marked);
            let want: Vec<u32> = (0..n as u32).filter(|t| vocab.bytes(*t).len() > 1 && vocab.bytes(*t)[0] == 0xFF && &vocab.bytes(*t)[1..] == name.as_bytes()).collect();
            ctx.eval(1);
            if toks.len() != 3 || !want.contains(&toks[1]) {
                return ctx.fail("C19/marked-name-not-tokenised-as-special", || format!("tokenize_bytes_marker({:?}) = {:?}, expected x, one of {:?}, y", esc(&marked), toks, want));
            }
        }

        let (g, segs): (GrammarSpec, Option<&Vec<Seg>>) = match &case.kind {
            Kind::Alt { .. } | Kind::Overlap { .. } | Kind::RefChoice { .. } => unreachable!(),
            Kind::Template(segs) => match template_grammar(segs, &vocab) {
                Some(t) => (GrammarSpec::Lark(t), Some(segs)),
                None => return Ok(()),
            },
            Kind::Text(g) => {
                if let GrammarSpec::Lark(s) = g {
                    if s.contains("<[") || (s.contains("<|tool|> \"x\"")) {
                        return Ok(());
                    }
                }
                (g.clone(), None)
            }
        };
        let f = factory(&vocab);
        let mut m = matcher(&f, &g);
        if let Some(e) = m.get_error() {
            ctx.class("compile_error");
            if segs.is_some() && !is_limit_error(&e) {
                // a template the documentation allows must compile, unless it references ids beyond the vocabulary
                let beyond = segs.unwrap().iter().any(|s| match s {
                    Seg::Ref(RefSpec::Id(i)) => *i as usize >= n,
                    Seg::Ref(RefSpec::Ranges(v)) | Seg::Ref(RefSpec::NotRanges(v)) => v.iter().any(|(_, b)| *b as usize >= n),
                    _ => false,
                });
                let empty = segs.unwrap().iter().any(|s| matches!(s, Seg::Ref(r) if denote(r, &vocab).is_empty()));
                if !beyond && !empty {
                    return ctx.fail("C19/template-does-not-compile", || format!("grammar {}: {}", g.text(), short_err(&e)));
                }
            }
            return Ok(());
        }
        let gtxt = truncate_str(&g.text(), 300);
        let gh = Fnv::new().str(&g.text()).str(&format!("{:?}", case.vocab)).finish();
        // position tracking for templates: index of the segment and bytes consumed inside it
        let mut seg_i = 0usize;
        let mut in_seg: Vec<u8> = vec![];
        let mut toks: Vec<u32> = vec![];
        let marker_tok = vocab.trie().token_id(&[0xFF]);
        for st in &case.walk {
            if m.is_stopped() {
                break;
            }
            let tag = |x: String| format!("grammar {} after tokens {:?}: {}", gtxt, toks, x);
            let accepting = m.is_accepting().unwrap_or(false);
            let mask = match m.compute_mask() {
                Ok(x) => x,
                Err(_) => break,
            };
            let marker_ok = marker_tok.is_some_and(|mt| m.clone().consume_token(mt).is_ok());
            // which kind of position are we at?
            let at_ref: Option<&RefSpec> = match segs {
                Some(s) if seg_i < s.len() => match &s[seg_i] {
                    Seg::Ref(r) if in_seg.is_empty() => Some(r),
                    _ => None,
                },
                _ => None,
            };
            if let Some(r) = at_ref {
                let want = denote(r, &vocab);
                ctx.class("ref_position");
                for t in 0..n as u32 {
                    let w = want.contains(&t);
                    let got = mask.is_allowed(t);
                    let v = m.clone().validate_tokens(&[t]).map(|k| k == 1).unwrap_or(false);
                    let c = m.clone().consume_token(t).is_ok();
                    ctx.eval(1);
                    if w != got || w != v || w != c {
                        return ctx.fail("C19/reference-position-set-mismatch", || {
                            tag(format!("at reference {:?}: token {} {:?}: denoted={} mask={} validate={} commit={}", r, t, esc(vocab.bytes(t)), w, got, v, c))
                        });
                    }
                }
            } else {
                let mut lookalike_allowed = false;
                for t in 0..n as u32 {
                    let got = mask.is_allowed(t);
                    if !is_markerish(&vocab, t) {
                        if got && vocab.bytes(t).starts_with(b"<") && vocab.bytes(t).len() > 1 {
                            lookalike_allowed = true;
                        }
                        continue;
                    }
                    ctx.eval(1);
                    let is_eos = vocab.is_eos(t);
                    let leak = |dflt: &'static str| if marker_ok { "C19/marker-byte-leak-under-byte-level-negation" } else { dflt };
                    if is_eos {
                        if got != accepting {
                            return ctx.fail(leak("C19/eos-at-text-position"), || tag(format!("EOS {} in mask={} but accepting={}", t, got, accepting)));
                        }
                        continue;
                    }
                    if got {
                        return ctx.fail(leak("C19/special-token-allowed-at-text-position"), || tag(format!("token {} {:?} is in the mask", t, esc(vocab.bytes(t)))));
                    }
                    let v = m.clone().validate_tokens(&[t]).map(|k| k == 1).unwrap_or(false);
                    let c = m.clone().consume_token(t).is_ok();
                    if v || c {
                        return ctx.fail(leak("C19/special-token-accepted-at-text-position"), || {
                            tag(format!("token {} {:?}: validate={} commit={}", t, esc(vocab.bytes(t)), v, c))
                        });
                    }
                }
                if lookalike_allowed {
                    let mut h = Fnv::new().u64(gh);
                    for t in &toks {
                        h = h.u64(*t as u64);
                    }
                    ctx.nontrivial(h.finish());
                }
                ctx.class("text_position");
            }
            // advance
            let ids = mask_ids(&mask, n);
            if ids.is_empty() {
                break;
            }
            let t = if st.multi {
                // prefer look-alike text tokens
                let la: Vec<u32> = ids.iter().cloned().filter(|t| !is_markerish(&vocab, *t) && vocab.bytes(*t).len() > 1).collect();
                if la.is_empty() {
                    ids[frac(st.pick, ids.len())]
                } else {
                    la[frac(st.pick, la.len())]
                }
            } else {
                ids[frac(st.pick, ids.len())]
            };
            if m.consume_token(t).is_err() {
                if m.get_error().is_some_and(|e| is_limit_error(&e)) {
                    return Ok(());
                }
                return ctx.fail("C19/mask-token-fails-to-commit", || tag(format!("token {} fails to commit", t)));
            }
            toks.push(t);
            // update template position
            if let Some(s) = segs {
                if at_ref.is_some() {
                    seg_i += 1;
                } else if seg_i < s.len() {
                    in_seg.extend_from_slice(vocab.bytes(t));
                    // consume whole text segments covered by the bytes
                    loop {
                        if seg_i >= s.len() {
                            break;
                        }
                        match &s[seg_i] {
                            Seg::Text(txt) => {
                                if in_seg.len() >= txt.len() {
                                    in_seg.drain(..txt.len());
                                    seg_i += 1;
                                } else {
                                    break;
                                }
                            }
                            Seg::Angle => {
                                // ends with '!'
                                if let Some(p) = in_seg.iter().position(|b| *b == b'!') {
                                    in_seg.drain(..=p);
                                    seg_i += 1;
                                } else {
                                    break;
                                }
                            }
                            Seg::Ref(_) => break,
                        }
                    }
                }
            }
        }
        Ok(())
    }
}
