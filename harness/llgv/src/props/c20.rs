//! C20 — arbitrary input never crashes, corrupts or hangs the engine.
//!
//! Inputs are generated in the parent (`check C20 quick|thorough`) and executed in worker
//! subprocesses (`check C20W <cases-file> <first> <count>`) of two builds of the same code:
//! `verif` (as users build it) and `verifchk` (debug assertions + overflow checks).  A worker
//! that dies by a signal identifies the input it was running; transcripts of the two builds
//! are compared.

use crate::corpus;
use crate::engine::{factory_ext, is_limit_error, GrammarSpec};
use crate::util::{frac, truncate_str, verif_root, Fnv};
use crate::vocab::VocabSpec;
use llguidance::api::{ParserLimits, TopLevelGrammar};
use llguidance::toktrie::InferenceCapabilities;
use llguidance::Matcher;
use proptest::prelude::*;
use proptest::strategy::ValueTree;
use proptest::test_runner::{Config, RngSeed, TestRunner};
use serde::{Deserialize, Serialize};
use serde_json::json;
use std::collections::{BTreeMap, HashSet};
use std::io::{BufRead, BufReader, Write};
use std::process::{Command, Stdio};
use std::sync::mpsc;
use std::time::{Duration, Instant};

#[derive(Clone, Debug, Serialize, Deserialize)]
pub enum Input {
    Lark(String),
    Json(String),
    Regex(String),
}

#[derive(Clone, Debug, Serialize, Deserialize)]
pub struct Case {
    pub input: Input,
    pub tight_limits: bool,
    pub slices: Option<Vec<String>>,
    pub synthetic_vocab: bool,
    /// API walk: (kind, a, b)
    pub ops: Vec<(u8, u32, u16)>,
}

// ------------------------------------------------------------------------------------------
// generators
// ------------------------------------------------------------------------------------------

fn nest(open: &str, close: &str, depth: usize, core: &str) -> String {
    format!("{}{}{}", open.repeat(depth), core, close.repeat(depth))
}

/// deep nesting in every place where the Lark front end recurses
fn nesting_lark() -> BoxedStrategy<String> {
    let depth = prop_oneof![Just(10usize), Just(60), Just(200), Just(1000), Just(2500), Just(5000), Just(40000)];
    prop_oneof![
        depth.clone().prop_map(|d| format!("start: {}\n", nest("(", ")", d, "\"a\""))),
        depth.clone().prop_map(|d| format!("start: {}\n", nest("[", "]", d, "\"a\""))),
        depth.clone().prop_map(|d| format!("start: T\nT: {}\n", nest("~(", ")", d.min(2000), "\"a\""))),
        depth.clone().prop_map(|d| format!("start: /{}/\n", nest("(", ")", d.min(3000), "a"))),
        depth.clone().prop_map(|d| format!("start: %json {}\n", nest("{\"allOf\":[", "]}", d.min(3000), "{\"type\":\"integer\"}"))),
        depth.clone().prop_map(|d| format!("start: {}\n", nest("%lark { start: ", " }", d, "\"a\""))),
        // nesting in places other than ( ) [ ]: rule-template arguments, parameter conditions, parameter expressions
        depth.clone().prop_map(|d| format!("start: {}\n", nest("a{", "}", d, "b"))),
        depth.clone().prop_map(|d| format!("start: p::0\np::_: \"a\" %if {} | \"b\"\n", nest("not(", ")", d, "bit_set(0)"))),
        depth.clone().prop_map(|d| format!("start: p::0\np::_: \"a\" %if {} | \"b\"\n", nest("and(bit_set(1), ", ")", d, "bit_set(0)"))),
        depth.prop_map(|d| format!("start: p::{}\np::_: \"a\" | \"b\"\n", nest("incr(", ")", d.min(5000), "_"))),
    ]
    .boxed()
}

fn adversarial_lark() -> BoxedStrategy<String> {
    let big = prop_oneof![Just("1000"), Just("65536"), Just("1000000"), Just("4294967295"), Just("4294967296"), Just("2147483648"), Just("99999999999999999999"), Just("0"), Just("-1")];
    prop_oneof![
        4 => nesting_lark(),
        1 => (big.clone(), big.clone()).prop_map(|(a, b)| format!("start: \"a\"{{{},{}}}\n", a, b)),
        1 => (big.clone(), big.clone()).prop_map(|(a, b)| format!("start: x{{{},{}}}\nx: \"a\" | \"b\" x\n", a, b)),
        1 => (big.clone(), big.clone()).prop_map(|(a, b)| format!("start: /a{{{},{}}}/\n", a, b)),
        1 => (big.clone(), big.clone()).prop_map(|(a, b)| format!("start: /(a{{{}}}){{{}}}/\n", a, b)),
        1 => (big.clone(), big.clone()).prop_map(|(a, b)| format!("start: \"a\"~{} .. {}\n", a, b)),
        1 => big.clone().prop_map(|a| format!("start: <[{}]> | <[0-{}]> | <[^{}]>\n", a, a, a)),
        // token ids at the edge of the vocabulary (the check's vocabularies have 257 and 289 tokens)
        1 => (prop_oneof![Just(255u32), Just(256), Just(257), Just(258), Just(287), Just(288), Just(289), Just(290)], 0u32..4, 0u8..6).prop_map(|(n, w, shape)| {
            let lo = n.saturating_sub(w);
            match shape {
                0 => format!("start: <[{}]>\n", n),
                1 => format!("start: <[{}-{}]>\n", lo, n),
                2 => format!("start: \"a\" <[{}-{}]> \"b\"\n", lo, n),
                3 => format!("start: <[^{}-{}]>\n", lo, n),
                4 => format!("start: (\"a\" | <[{}]>)*\n", n),
                _ => format!("start: <[0-3,{}-{}]> <[^0-{}]>\n", lo, n, lo),
            }
        }),
        1 => big.clone().prop_map(|a| format!("start: p::{}\np::_: \"a\" p::incr([0:{}]) %if lt([0:64], {}) | \"\"\n", a, a, a)),
        1 => big.clone().prop_map(|a| format!("start: p::0\np::_: \"a\" p::set_bit({}) %if bit_clear({}) | \"\"\n", a, a)),
        1 => big.clone().prop_map(|a| format!("start: x\nx[max_tokens={}]: /a*/\n", a)),
        1 => big.prop_map(|a| format!("start: \"{}\"\n", "ab".repeat(a.parse::<usize>().unwrap_or(7).min(300000)))),
        // a long chain of rule (terminal) references: flat text, deep compilation
        1 => prop_oneof![Just(100usize), Just(1000), Just(20000)].prop_map(|d| {
            let mut t = String::from("start: r0\n");
            for i in 0..d {
                t.push_str(&format!("r{}: r{}\n", i, i + 1));
            }
            t.push_str(&format!("r{}: \"a\"\n", d));
            t
        }),
        1 => prop_oneof![Just(100usize), Just(1000), Just(20000)].prop_map(|d| {
            let mut t = String::from("start: T0\n");
            for i in 0..d {
                t.push_str(&format!("T{}: T{} \"b\"\n", i, i + 1));
            }
            t.push_str(&format!("T{}: \"a\"\n", d));
            t
        }),
        1 => Just("start: start\n".to_string()),
        1 => Just("start: a\na: b\nb: a | a a\n".to_string()),
        1 => Just("start: A\nA: B\nB: A\n".to_string()),
        1 => Just("start: x*\nx: \"\" | x x\n".to_string()),
        1 => Just("start: (\"a\"?)*\n".to_string()),
        1 => Just("start: /(a*)*b/\n".to_string()),
        1 => Just("start: /(a|aa)+$/\n".to_string()),
        1 => Just("start: /\\p{L}{1,300}\\p{N}{1,300}/\n".to_string()),
        1 => Just("start: /(?=a)b/ | /a(?!b)/ | /\\bword\\b/\n".to_string()),
        1 => Just("%ignore /x*/\n%ignore //\nstart: \"a\"\n".to_string()),
        1 => Just("start: @missing | @0 | <|nosuchtoken|>\n".to_string()),
        1 => Just("%llguidance {\"allow_invalid_utf8\": true, \"no_forcing\": 17}\nstart: /\\xff+/\n".to_string()),
        1 => Just("start: \"a\" -> b\n%import common.INT\n%declare X\nstart2{x}: x\n".to_string()),
        1 => Just("start: %regex { \"substring_chars\": \"\" } | %regex {\"substring_words\": 5}\n".to_string()),
    ]
    .boxed()
}

fn adversarial_schema() -> BoxedStrategy<String> {
    let num = prop_oneof![
        Just("0"), Just("-0.0"), Just("1e308"), Just("-1e308"), Just("1e-320"), Just("4.9e-324"), Just("9007199254740993"), Just("18446744073709551616"),
        Just("-9223372036854775809"), Just("65536"), Just("65537"), Just("4294967295"), Just("4294967296"), Just("0.1"), Just("1e-7"), Just("123456789.123456789"), Just("1e400"), Just("0.30000000000000004")
    ];
    let depth = prop_oneof![Just(5usize), Just(40), Just(200), Just(2000), Just(20000)];
    prop_oneof![
        (num.clone(), num.clone()).prop_map(|(a, b)| format!("{{\"allOf\":[{{\"type\":\"integer\",\"multipleOf\":{}}},{{\"multipleOf\":{}}}]}}", a, b)),
        (num.clone(), num.clone()).prop_map(|(a, b)| format!("{{\"type\":\"number\",\"minimum\":{},\"maximum\":{}}}", a, b)),
        (num.clone(), num.clone()).prop_map(|(a, b)| format!("{{\"type\":\"integer\",\"exclusiveMinimum\":{},\"multipleOf\":{}}}", a, b)),
        (num.clone(), num.clone(), num.clone()).prop_map(|(a, b, c)| format!("{{\"type\":\"number\",\"minimum\":{},\"exclusiveMaximum\":{},\"multipleOf\":{}}}", a, b, c)),
        num.clone().prop_map(|a| format!("{{\"type\":\"array\",\"items\":{{\"type\":\"null\"}},\"minItems\":{},\"maxItems\":{}}}", a, a)),
        num.clone().prop_map(|a| format!("{{\"type\":\"string\",\"minLength\":{},\"maxLength\":{}}}", a, a)),
        num.clone().prop_map(|a| format!("{{\"type\":\"object\",\"additionalProperties\":{{\"type\":\"null\"}},\"minProperties\":{},\"maxProperties\":{}}}", a, a)),
        num.prop_map(|a| format!("{{\"enum\":[{},{},\"{}\"],\"const\":{}}}", a, a, a, a)),
        depth.clone().prop_map(|d| nest("{\"allOf\":[", "]}", d, "{\"type\":\"integer\"}")),
        depth.clone().prop_map(|d| nest("{\"anyOf\":[{\"type\":\"null\"},", "]}", d, "{\"type\":\"integer\"}")),
        depth.clone().prop_map(|d| nest("{\"type\":\"array\",\"items\":", "}", d, "{\"type\":\"integer\"}")),
        depth.clone().prop_map(|d| nest("{\"type\":\"object\",\"properties\":{\"a\":", "}}", d, "{\"type\":\"integer\"}")),
        depth.clone().prop_map(|d| nest("[", "]", d, "1")),
        // a long chain of definitions referring to one another (flat text, deep resolution)
        depth.clone().prop_map(|d| {
            let mut defs: Vec<String> = (0..d).map(|i| format!("\"d{}\":{{\"$ref\":\"#/$defs/d{}\"}}", i, i + 1)).collect();
            defs.push(format!("\"d{}\":{{\"type\":\"integer\"}}", d));
            format!("{{\"$ref\":\"#/$defs/d0\",\"$defs\":{{{}}}}}", defs.join(","))
        }),
        depth.prop_map(|d| {
            let mut defs: Vec<String> = (0..d).map(|i| format!("\"d{}\":{{\"type\":\"array\",\"items\":{{\"$ref\":\"#/$defs/d{}\"}}}}", i, i + 1)).collect();
            defs.push(format!("\"d{}\":{{\"type\":\"integer\"}}", d));
            format!("{{\"$ref\":\"#/$defs/d0\",\"$defs\":{{{}}}}}", defs.join(","))
        }),
        Just("{\"$ref\":\"#\"}".to_string()),
        Just("{\"$ref\":\"#/$defs/a\",\"$defs\":{\"a\":{\"$ref\":\"#/$defs/b\"},\"b\":{\"$ref\":\"#/$defs/a\"}}}".to_string()),
        Just("{\"$defs\":{\"a\":{\"anyOf\":[{\"$ref\":\"#/$defs/a\"},{\"type\":\"null\"}]}},\"$ref\":\"#/$defs/a\"}".to_string()),
        Just("{\"$defs\":{\"a\":{\"allOf\":[{\"$ref\":\"#/$defs/a\"}]}},\"$ref\":\"#/$defs/a\"}".to_string()),
        Just("{\"$ref\":\"#/nowhere\"}".to_string()),
        Just("{\"$ref\":\"http://example.com/schema.json\"}".to_string()),
        Just("{\"type\":\"object\",\"properties\":{\"a\":{\"$ref\":\"#\"}},\"required\":[\"a\"]}".to_string()),
        Just("{\"type\":\"string\",\"pattern\":\"(a*)*b\"}".to_string()),
        Just("{\"type\":\"string\",\"pattern\":\"^(?=x)[\"}".to_string()),
        Just("{\"type\":\"string\",\"pattern\":\"\\\\p{Han}{1,1000}\",\"maxLength\":3}".to_string()),
        Just("{\"type\":\"string\",\"format\":\"nonsense\"}".to_string()),
        Just("{\"type\":[\"string\",17,null]}".to_string()),
        Just("{\"type\":\"object\",\"properties\":[],\"required\":\"a\"}".to_string()),
        Just("{\"x-guidance\":{\"whitespace_pattern\":\"(\",\"item_separator\":\"\",\"key_separator\":\"a*\"},\"type\":\"object\"}".to_string()),
        Just("{\"x-guidance\":{\"json_allowed_escapes\":\"zq\"},\"type\":\"string\"}".to_string()),
        Just("{\"type\":\"object\",\"patternProperties\":{\"(\":{},\"^a\":{},\"a$\":{}},\"additionalProperties\":false}".to_string()),
        Just("{\"oneOf\":[{\"type\":\"integer\"},{\"type\":\"number\"}]}".to_string()),
        Just("true".to_string()),
        Just("false".to_string()),
        Just("17".to_string()),
        Just("{\"enum\":[]}".to_string()),
        Just("{\"type\":\"array\",\"prefixItems\":[false],\"minItems\":1}".to_string()),
    ]
    .boxed()
}

fn adversarial_regex() -> BoxedStrategy<String> {
    prop_oneof![
        Just("(a*)*b".to_string()),
        Just("(a|aa)*c".to_string()),
        Just("a{1000}{1000}".to_string()),
        Just("(a{1,1000}){1,1000}".to_string()),
        Just("[\\p{L}\\p{N}]{1,5000}".to_string()),
        Just("(".to_string()),
        Just("a**".to_string()),
        Just("[z-a]".to_string()),
        Just("\\".to_string()),
        Just("(?P<n>a)\\k<n>".to_string()),
        Just("(?i)\\u{10FFFF}+|\\x{110000}".to_string()),
        Just("(?-u)\\xff+".to_string()),
        Just(format!("{}", nest("(", ")", 4000, "a"))),
        Just("a|".repeat(20000)),
        Just("(?s:.){4294967295}".to_string()),
        Just("".to_string()),
    ]
    .boxed()
}

/// byte-level mutation of a valid input
fn mutate_text(s: String, muts: Vec<(u16, u8, u8)>) -> String {
    let mut b = s.into_bytes();
    for (pos, kind, val) in muts {
        if b.is_empty() {
            b.push(val);
            continue;
        }
        let i = frac(pos, b.len());
        match kind % 7 {
            0 => b[i] = val,
            1 => {
                b.remove(i);
            }
            2 => b.insert(i, val),
            3 => {
                let j = (i + 1 + val as usize).min(b.len());
                let piece: Vec<u8> = b[i..j].to_vec();
                for (k, x) in piece.into_iter().enumerate() {
                    b.insert(i + k, x);
                }
            }
            4 => b.truncate(i),
            5 => {
                let ins: &[u8] = [&b"{"[..], b"}", b"(", b")", b"[", b"]", b"\"", b"\\", b"::", b"%if", b"~", b"&", b"|", b"*", b"{0,", b"99999999999", b"\xff", b"\n", b"<[", b"/"][val as usize % 20];
                for (k, x) in ins.iter().enumerate() {
                    b.insert(i + k, *x);
                }
            }
            _ => {
                let j = (i + val as usize) % b.len().max(1);
                b.swap(i, j)
            }
        }
    }
    String::from_utf8_lossy(&b).to_string()
}

fn input_strategy() -> BoxedStrategy<Input> {
    let muts = proptest::collection::vec((any::<u16>(), any::<u8>(), any::<u8>()), 0..4);
    let valid = crate::gen::any_grammar_ext();
    let all_corpus = corpus::all();
    let corp = (0..all_corpus.len()).prop_map(move |i| all_corpus[i].clone());
    let from_spec = |g: GrammarSpec| match g {
        GrammarSpec::Lark(s) => Input::Lark(s),
        GrammarSpec::Regex(s) => Input::Regex(s),
        GrammarSpec::Json(v) => Input::Json(v.to_string()),
    };
    prop_oneof![
        3 => adversarial_lark().prop_map(Input::Lark),
        1 => nesting_lark().prop_map(Input::Lark),
        3 => adversarial_schema().prop_map(Input::Json),
        1 => adversarial_regex().prop_map(Input::Regex),
        2 => valid.clone().prop_map(from_spec),
        1 => crate::gen::gen_like_grammar(false).prop_map(from_spec),
        4 => (prop_oneof![valid, corp], muts.clone()).prop_map(move |(g, m)| match g {
            GrammarSpec::Lark(s) => Input::Lark(mutate_text(s, m)),
            GrammarSpec::Regex(s) => Input::Regex(mutate_text(s, m)),
            GrammarSpec::Json(v) => Input::Json(mutate_text(v.to_string(), m)),
        }),
        1 => (adversarial_schema(), muts.clone()).prop_map(|(s, m)| Input::Json(mutate_text(s, m))),
        1 => (adversarial_lark(), muts).prop_map(|(s, m)| Input::Lark(mutate_text(s, m))),
    ]
    .boxed()
}

fn case_strategy() -> BoxedStrategy<Case> {
    let slices = proptest::option::weighted(
        0.3,
        proptest::collection::vec(prop_oneof![Just("[a-z]+"), Just("[a-z]{1,3}"), Just("("), Just(""), Just("[a-z]+"), Just("(a*)*"), Just("\\p{L}+"), Just("[^\"]{1,10}")].prop_map(|s: &str| s.to_string()), 0..4),
    );
    (input_strategy(), any::<bool>(), slices, any::<bool>(), proptest::collection::vec((0u8..9, any::<u32>(), any::<u16>()), 0..24))
        .prop_map(|(input, tight_limits, slices, synthetic_vocab, ops)| Case { input, tight_limits, slices, synthetic_vocab, ops })
        .boxed()
}

// ------------------------------------------------------------------------------------------
// worker
// ------------------------------------------------------------------------------------------

fn short(e: &str) -> String {
    truncate_str(e.lines().next().unwrap_or(""), 160)
}

/// Runs one case; returns a transcript: one line per step, comparable between builds.
pub fn run_case(case: &Case) -> Vec<String> {
    let mut t: Vec<String> = vec![];
    let mut vs = VocabSpec::byte();
    if case.synthetic_vocab {
        vs.extra = ["ab", "{\"", "\":", "  ", "é", "12", "a,", "}]", "null", "tru", "\n\n"].iter().map(|s| crate::util::B(s.as_bytes().to_vec())).collect();
        vs.pad_to = 289;
    }
    let vocab = vs.build().unwrap();
    let limits = if case.tight_limits {
        let mut l = ParserLimits::default();
        l.max_items_in_row = 50;
        l.initial_lexer_fuel = 20_000;
        l.step_lexer_fuel = 5_000;
        l.step_max_items = 500;
        l.max_lexer_states = 200;
        l.max_grammar_size = 2_000;
        Some(l)
    } else {
        None
    };
    let slices: Vec<String> = case.slices.clone().unwrap_or_default();
    let f = match factory_ext(&vocab, &slices, InferenceCapabilities::default(), limits) {
        Ok(f) => f,
        Err(e) => {
            t.push(format!("factory err:{}", short(&e.to_string())));
            return t;
        }
    };
    let top = match &case.input {
        Input::Lark(s) => Ok(TopLevelGrammar::from_lark(s.clone())),
        Input::Regex(s) => Ok(TopLevelGrammar::from_regex(s)),
        Input::Json(s) => TopLevelGrammar::from_tagged_str("json", s),
    };
    let top = match top {
        Ok(t2) => t2,
        Err(e) => {
            t.push(format!("parse err:{}", short(&e.to_string())));
            return t;
        }
    };
    let mut m = Matcher::new(f.create_parser(top));
    if let Some(e) = m.get_error() {
        t.push(format!("compile err:{}", short(&e)));
        // a failed engine keeps reporting its failure
        let again = m.compute_mask().is_err() && m.consume_token(0).is_err() && m.is_error() && m.is_stopped();
        t.push(format!("stays failed:{}", again));
        return t;
    }
    t.push("compile ok".into());
    let n = vocab.len();
    let mut committed = 0usize;
    for (kind, a, b) in &case.ops {
        if m.is_error() {
            let again = m.compute_mask().is_err() && m.is_error();
            t.push(format!("stays failed:{}", again));
            break;
        }
        let line = match kind {
            0 | 1 | 2 => {
                // legal: mask, then commit an allowed token
                if m.is_stopped() {
                    "stopped".to_string()
                } else {
                    match m.compute_mask() {
                        Ok(mask) => {
                            let ids = crate::walk::mask_ids(&mask, n);
                            let beyond = mask.as_slice().iter().enumerate().any(|(w, d)| (0..32).any(|bit| w * 32 + bit >= n && d & (1 << bit) != 0));
                            if ids.is_empty() {
                                format!("LEGAL mask ok but empty")
                            } else {
                                let tok = ids[frac(*b, ids.len())];
                                match m.consume_token(tok) {
                                    Ok(()) => {
                                        committed += 1;
                                        format!("LEGAL mask {} bits{} commit {} ok", ids.len(), if beyond { " BEYOND-VOCAB" } else { "" }, tok)
                                    }
                                    Err(e) => format!("LEGAL commit of allowed token {} err:{}", tok, short(&e.to_string())),
                                }
                            }
                        }
                        Err(e) => format!("LEGAL mask err:{}", short(&e.to_string())),
                    }
                }
            }
            3 => {
                let seq: Vec<u32> = (0..3u32).map(|j| (a.wrapping_mul(31).wrapping_add(j * 7919)) % n as u32).collect();
                match m.validate_tokens(&seq) {
                    Ok(k) => format!("LEGAL validate {}", k),
                    Err(e) => format!("LEGAL validate err:{}", short(&e.to_string())),
                }
            }
            4 => {
                if committed == 0 {
                    "skip".to_string()
                } else {
                    let k = 1 + (*b as usize % committed);
                    match m.rollback(k) {
                        Ok(()) => {
                            committed -= k;
                            format!("LEGAL rollback {} ok", k)
                        }
                        Err(e) => format!("LEGAL rollback {} err:{}", k, short(&e.to_string())),
                    }
                }
            }
            5 => {
                // any token id in u32: may legitimately be rejected
                match m.consume_token(*a) {
                    Ok(()) => {
                        committed += 1;
                        format!("commit any {} ok", a)
                    }
                    Err(e) => format!("commit any {} err:{}", a, short(&e.to_string())),
                }
            }
            6 => format!("ff {:?} / {} bytes", m.compute_ff_tokens(), m.compute_ff_bytes().len()),
            7 => match m.reset() {
                Ok(()) => {
                    committed = 0;
                    "LEGAL reset ok".to_string()
                }
                Err(e) => format!("LEGAL reset err:{}", short(&e.to_string())),
            },
            _ => match m.is_accepting() {
                Ok(x) => format!("LEGAL accepting {}", x),
                Err(e) => format!("LEGAL accepting err:{}", short(&e.to_string())),
            },
        };
        t.push(line);
    }
    t
}

/// `check C20W <file> <first> <count>`
pub fn worker_main(args: &[String]) -> i32 {
    let file = &args[0];
    let first: usize = args[1].parse().unwrap();
    let count: usize = args[2].parse().unwrap();
    // address-space limit: a blow-up becomes an allocation failure instead of eating the machine
    unsafe {
        let lim = libc::rlimit { rlim_cur: 12 << 30, rlim_max: 12 << 30 };
        libc::setrlimit(libc::RLIMIT_AS, &lim);
    }
    let txt = std::fs::read_to_string(file).expect("cases file");
    let out = std::io::stdout();
    for (i, line) in txt.lines().enumerate().skip(first).take(count) {
        let case: Case = serde_json::from_str(line).expect("case");
        {
            let mut o = out.lock();
            writeln!(o, "BEGIN {}", i).unwrap();
            o.flush().unwrap();
        }
        // a thread with the usual 8 MB main-thread stack
        let h = std::thread::Builder::new().stack_size(8 << 20).spawn(move || run_case(&case)).unwrap();
        let tr = match h.join() {
            Ok(t) => t,
            Err(e) => {
                let msg = e.downcast_ref::<String>().cloned().or_else(|| e.downcast_ref::<&str>().map(|s| s.to_string())).unwrap_or_default();
                vec![format!("PANIC-ESCAPED {}", short(&msg))]
            }
        };
        let mut o = out.lock();
        writeln!(o, "END {} {}", i, serde_json::to_string(&tr).unwrap()).unwrap();
        o.flush().unwrap();
    }
    0
}

// ------------------------------------------------------------------------------------------
// parent
// ------------------------------------------------------------------------------------------

#[derive(Debug, Clone)]
enum Res {
    Done(Vec<String>),
    Crashed(String),
    Timeout,
    Oom,
}

fn bin_for(profile: &str) -> std::path::PathBuf {
    verif_root().join("harness/target").join(profile).join("check")
}

fn run_profile(profile: &str, file: &std::path::Path, n: usize, watchdog: Duration) -> Vec<Res> {
    let bin = bin_for(profile);
    let workers = 16usize;
    let per = n.div_ceil(workers);
    let results: std::sync::Mutex<Vec<Option<Res>>> = std::sync::Mutex::new(vec![None; n]);
    std::thread::scope(|s| {
        for w in 0..workers {
            let results = &results;
            let bin = &bin;
            s.spawn(move || {
                let lo = w * per;
                let hi = ((w + 1) * per).min(n);
                let mut next = lo;
                while next < hi {
                    let mut child = Command::new(bin)
                        .args(["C20W", file.to_str().unwrap(), &next.to_string(), &(hi - next).to_string()])
                        .env("VERIF_ROOT", verif_root())
                        .stdin(Stdio::null())
                        .stdout(Stdio::piped())
                        .stderr(Stdio::piped())
                        .spawn()
                        .expect("spawn worker");
                    let stdout = child.stdout.take().unwrap();
                    let mut stderr = child.stderr.take().unwrap();
                    let (tx, rx) = mpsc::channel::<String>();
                    let rd = std::thread::spawn(move || {
                        for l in BufReader::new(stdout).lines().map_while(Result::ok) {
                            if tx.send(l).is_err() {
                                break;
                            }
                        }
                    });
                    let mut current: Option<usize> = None;
                    let mut outcome: Option<Res> = None;
                    loop {
                        match rx.recv_timeout(watchdog) {
                            Ok(l) => {
                                if let Some(r) = l.strip_prefix("BEGIN ") {
                                    current = r.trim().parse().ok();
                                } else if let Some(r) = l.strip_prefix("END ") {
                                    let (i, js) = r.split_once(' ').unwrap();
                                    let i: usize = i.parse().unwrap();
                                    let tr: Vec<String> = serde_json::from_str(js).unwrap_or_default();
                                    results.lock().unwrap()[i] = Some(Res::Done(tr));
                                    current = None;
                                    next = i + 1;
                                }
                            }
                            Err(mpsc::RecvTimeoutError::Timeout) => {
                                let _ = child.kill();
                                outcome = Some(Res::Timeout);
                                break;
                            }
                            Err(mpsc::RecvTimeoutError::Disconnected) => break,
                        }
                    }
                    let status = child.wait().ok();
                    let _ = rd.join();
                    let mut err = String::new();
                    use std::io::Read;
                    let _ = stderr.read_to_string(&mut err);
                    if let Some(i) = current {
                        let r = match outcome {
                            Some(r) => r,
                            None => {
                                if err.contains("memory allocation of") {
                                    Res::Oom
                                } else {
                                    use std::os::unix::process::ExitStatusExt;
                                    let sig = status.and_then(|s| s.signal());
                                    Res::Crashed(format!("worker died (signal {:?}, status {:?}): {}", sig, status, truncate_str(err.trim(), 300)))
                                }
                            }
                        };
                        results.lock().unwrap()[i] = Some(r);
                        next = i + 1;
                    } else if next < hi && outcome.is_none() && !status.is_some_and(|s| s.success()) {
                        // died between cases: skip one to guarantee progress
                        results.lock().unwrap()[next] = Some(Res::Crashed(format!("worker died outside a case: {}", truncate_str(err.trim(), 200))));
                        next += 1;
                    } else if current.is_none() && next < hi && status.is_some_and(|s| s.success()) {
                        // worker finished its slice
                        break;
                    }
                }
            });
        }
    });
    results.into_inner().unwrap().into_iter().map(|r| r.unwrap_or(Res::Crashed("no result".into()))).collect()
}

fn known() -> std::collections::BTreeSet<String> {
    crate::runner::load_known("C20").0
}

/// verdict for one case from the two transcripts: Ok(None) fine, Ok(Some(known key)), Err((key,msg))
fn judge(chk: &Res, usr: &Res) -> Result<(), (String, String)> {
    for (name, r) in [("verifchk", chk), ("verif", usr)] {
        if let Res::Crashed(m) = r {
            return Err(("C20/process-died".into(), format!("{} build: {}", name, m)));
        }
    }
    let (c, u) = match (chk, usr) {
        (Res::Done(c), Res::Done(u)) => (c, u),
        _ => return Ok(()), // timeouts / OOM: inconclusive, counted by the caller
    };
    for (name, tr) in [("verifchk", c), ("verif", u)] {
        for l in tr {
            if l.starts_with("PANIC-ESCAPED") {
                return Err(("C20/panic-escaped-public-api".into(), format!("{} build: {}", name, l)));
            }
            if l.starts_with("stays failed:false") {
                return Err(("C20/failed-engine-stopped-reporting-failure".into(), format!("{} build: a failed engine answered a later call normally", name)));
            }
            if l.contains("BEYOND-VOCAB") {
                return Err(("C20/mask-bit-beyond-vocabulary".into(), format!("{} build: {}", name, l)));
            }
            if l.starts_with("LEGAL") && l.contains("err:") && l.contains("panic") && name == "verif" {
                return Err(("C20/legal-call-failed-with-internal-panic".into(), format!("{} build: {}", name, l)));
            }
        }
    }
    // differential: the user build must not return a result where the checked build sees an
    // arithmetic overflow / failed debug assertion
    for (i, lc) in c.iter().enumerate() {
        let lu = u.get(i).cloned().unwrap_or_default();
        if *lc == lu {
            continue;
        }
        let overflow = lc.contains("overflow") || lc.contains("attempt to");
        let dbg = lc.contains("panic");
        if overflow {
            return Err(("C20/result-after-arithmetic-overflow".into(), format!("step {}: checked build: {:?}; user build: {:?}", i, lc, lu)));
        }
        if dbg && !lu.contains("err:") {
            return Err(("C20/result-after-failed-debug-assertion".into(), format!("step {}: checked build: {:?}; user build: {:?}", i, lc, lu)));
        }
        if !is_limit_error(lc) && !is_limit_error(&lu) {
            return Err(("C20/builds-disagree".into(), format!("step {}: checked build: {:?}; user build: {:?}", i, lc, lu)));
        }
        break;
    }
    Ok(())
}

fn gen_cases(seed: u64, n: usize) -> Vec<Case> {
    let mut runner = TestRunner::new(Config { rng_seed: RngSeed::Fixed(Fnv::new().u64(seed).str("C20").finish()), ..Config::default() });
    let strat = case_strategy();
    let mut v = vec![];
    // fixed regression inputs first
    v.push(Case { input: Input::Json("{\"allOf\":[{\"type\":\"integer\",\"multipleOf\":65536},{\"multipleOf\":65537}]}".into()), tight_limits: false, slices: None, synthetic_vocab: false, ops: vec![(0, 0, 0), (3, 5, 5)] });
    while v.len() < n {
        v.push(strat.new_tree(&mut runner).unwrap().current());
    }
    v
}

pub fn main_c20(mode: &str, file: Option<&str>) -> i32 {
    let t0 = Instant::now();
    let seed = crate::runner::seed_from_env();
    let (tier_name, n, watchdog) = match mode {
        "quick" => ("quick", 2500usize, Duration::from_secs(15)),
        "thorough" => ("thorough", 60000usize, Duration::from_secs(90)),
        "replay" => ("quick", 0, Duration::from_secs(120)),
        _ => return 2,
    };
    for p in ["verif", "verifchk"] {
        if !bin_for(p).exists() {
            eprintln!("missing {} (run.sh builds it)", bin_for(p).display());
            return 2;
        }
    }
    let mut cases: Vec<Case> = vec![];
    // replay files first
    let dir = verif_root().join("replays/C20");
    let mut replay_names: Vec<String> = vec![];
    let mut files: Vec<std::path::PathBuf> = if mode == "replay" {
        vec![std::path::PathBuf::from(file.unwrap_or(""))]
    } else {
        std::fs::read_dir(&dir).map(|rd| rd.filter_map(|e| e.ok()).map(|e| e.path()).filter(|p| p.extension().is_some_and(|e| e == "json")).collect()).unwrap_or_default()
    };
    files.sort();
    for f in &files {
        if let Ok(txt) = std::fs::read_to_string(f) {
            if let Ok(v) = serde_json::from_str::<serde_json::Value>(&txt) {
                let cv = if v.get("case").is_some() { v["case"].clone() } else { v };
                if let Ok(c) = serde_json::from_value::<Case>(cv) {
                    cases.push(c);
                    replay_names.push(f.to_string_lossy().to_string());
                }
            }
        }
    }
    let n_replay = cases.len();
    cases.extend(gen_cases(seed, n));
    let tmp = verif_root().join("harness/target/c20");
    let _ = std::fs::create_dir_all(&tmp);
    let cf = tmp.join(format!("cases-{}-{}.jsonl", std::process::id(), seed));
    {
        let mut f = std::fs::File::create(&cf).unwrap();
        for c in &cases {
            writeln!(f, "{}", serde_json::to_string(c).unwrap()).unwrap();
        }
    }
    let chk = run_profile("verifchk", &cf, cases.len(), watchdog);
    let usr = run_profile("verif", &cf, cases.len(), watchdog);
    let _ = std::fs::remove_file(&cf);
    let kn = known();
    let mut classes: BTreeMap<String, u64> = BTreeMap::new();
    let mut nontrivial: HashSet<u64> = HashSet::new();
    let mut violations: Vec<(String, String, String)> = vec![];
    let mut known_hits: BTreeMap<String, (u64, String)> = BTreeMap::new();
    let mut samples = vec![];
    for (i, c) in cases.iter().enumerate() {
        let kind = match &c.input {
            Input::Lark(_) => "lark",
            Input::Json(_) => "json",
            Input::Regex(_) => "regex",
        };
        *classes.entry(format!("input:{}", kind)).or_default() += 1;
        for (nm, r) in [("verifchk", &chk[i]), ("verif", &usr[i])] {
            match r {
                Res::Timeout => *classes.entry(format!("inconclusive_timeout:{}", nm)).or_default() += 1,
                Res::Oom => *classes.entry(format!("inconclusive_out_of_memory:{}", nm)).or_default() += 1,
                _ => {}
            }
        }
        if let Res::Timeout = usr[i] {
            eprintln!("[C20] watchdog expired (inconclusive, not a violation) on: {}", truncate_str(&serde_json::to_string(c).unwrap(), 300));
        }
        if let Res::Done(tr) = &usr[i] {
            let compiled = tr.iter().any(|l| l == "compile ok");
            let deep_err = tr.iter().any(|l| l.starts_with("compile err:")) ;
            *classes.entry(if compiled { "compiled".into() } else if deep_err { "compile_error".into() } else { "rejected_before_compile".to_string() }).or_default() += 1;
            if (compiled && tr.len() >= 6) || deep_err {
                nontrivial.insert(Fnv::new().str(&serde_json::to_string(&c.input).unwrap()).finish());
            }
            if samples.len() < 4 && compiled {
                samples.push(json!({"case": c, "transcript": tr}));
            }
        }
        if let Err((mut key, msg)) = judge(&chk[i], &usr[i]) {
            // known findings: the two internal panics of hidden stop= lexemes (see C11) - only for
            // Lark inputs that contain such a lexeme
            if key == "C20/legal-call-failed-with-internal-panic" && matches!(&c.input, Input::Lark(s) if s.contains("stop=")) {
                if let Some(k) = crate::engine::hidden_stop_panic(&msg) {
                    key = format!("C20/{}", k);
                }
            }
            if kn.contains(&key) {
                let e = known_hits.entry(key).or_insert((0, truncate_str(&msg, 300)));
                e.0 += 1;
                continue;
            }
            // write a replay file
            let path = if i < n_replay {
                replay_names[i].clone()
            } else {
                let h = Fnv::new().str(&serde_json::to_string(c).unwrap()).finish();
                let p = dir.join(format!("violation-{:016x}.json", h));
                let _ = std::fs::create_dir_all(&dir);
                let _ = std::fs::write(&p, serde_json::to_string_pretty(&json!({"property":"C20","key":key,"message":msg,"case":c})).unwrap());
                p.to_string_lossy().to_string()
            };
            violations.push((path, key, msg));
        }
    }
    let (_, descs) = crate::runner::load_known("C20");
    for (k, (cnt, first)) in &known_hits {
        println!("KNOWN-FINDING: property=C20 {} ({} hits; {}; first: {})", k, cnt, descs.get(k).cloned().unwrap_or_default(), first);
    }
    // one line per distinct key
    let mut seen = HashSet::new();
    for (path, key, msg) in &violations {
        if seen.insert(key.clone()) || mode == "replay" {
            println!("VIOLATION property=C20 replay={}", path);
            println!("  key={} :: {}", key, truncate_str(msg, 800));
        }
    }
    let wall = t0.elapsed().as_secs_f64();
    if mode != "replay" {
        let ev = json!({
            "property_id": "C20", "tier": tier_name, "seed": seed as i64, "level": "exploration",
            "coverage": {
                "evaluations": cases.len() * 2,
                "distinct_nontrivial": nontrivial.len(),
                "rule": "case = (grammar text / JSON schema text / regex: adversarial families (nesting 10..40000 deep, repetition counts up to 2^32 and beyond, numeric keywords with huge / denormal / overflowing values and multipleOf pairs with large lcm, recursive $ref knots, pathological regexes, wrong types) or byte-level mutations (flip, delete, insert, duplicate, truncate, splice of syntax fragments) of generated and corpus inputs; slice list; vocabulary; tight or default ParserLimits; API walk of mask+commit, validate, rollback, reset, ff, commits of arbitrary u32 token ids). Every case runs in a worker subprocess (8 MB stack thread, 12 GB address space, watchdog) of two builds: verif (user build) and verifchk (debug assertions + overflow checks). Oracle: no worker death by signal, no panic escaping the API, failed engines stay failed, no mask bit beyond the vocabulary, no internal panic on legal calls, and equal transcripts between the builds unless the checked build reports an arithmetic overflow / debug assertion (then the user build returned a result after an internal overflow). evaluation = one (case, build) execution; non-trivial = input that compiles and survives >= 5 API calls or is rejected by a compile-stage error; distinct by input hash",
                "samples": samples,
                "classes": classes,
                "known_findings_hit": known_hits.iter().map(|(k,(n,_))| json!({"key":k,"hits":n})).collect::<Vec<_>>(),
                "replayed_files": n_replay,
            },
            "assumptions": ["watchdog expiry and out-of-memory aborts are counted as inconclusive, never as violations", "unbounded looping is only observable as a watchdog expiry"],
            "wall_s": wall, "violations": violations.len(),
        });
        let _ = std::fs::create_dir_all(verif_root().join("evidence"));
        std::fs::write(verif_root().join("evidence/C20.json"), serde_json::to_string_pretty(&ev).unwrap()).unwrap();
    }
    println!("[C20] tier={} seed={} evaluations={} distinct_nontrivial={} violations={} known_hits={} wall={:.1}s", tier_name, seed, cases.len() * 2, nontrivial.len(), violations.len(), known_hits.values().map(|v| v.0).sum::<u64>(), wall);
    if violations.is_empty() {
        0
    } else {
        1
    }
}
