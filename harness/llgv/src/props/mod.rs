pub mod c01;
