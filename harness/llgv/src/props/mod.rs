pub mod c01;
pub mod c04;
pub mod c05;
pub mod c11;
pub mod c02;
pub mod c13;
pub mod c14;
pub mod c19;
