//! Sharded proptest runner, known findings, replay files, evidence.

use crate::util::{truncate_str, verif_root, Fnv};
use proptest::strategy::{BoxedStrategy, Strategy};
use proptest::test_runner::{Config, RngSeed, TestCaseError, TestError, TestRunner};
use serde::de::DeserializeOwned;
use serde::Serialize;
use serde_json::{json, Value};
use std::collections::{BTreeMap, BTreeSet, HashSet};
use std::sync::atomic::{AtomicBool, Ordering};
use std::sync::Mutex;
use std::time::Instant;

#[derive(Clone, Copy, PartialEq, Eq, Debug)]
pub enum Tier {
    Quick,
    Thorough,
}

impl Tier {
    pub fn name(&self) -> &'static str {
        match self {
            Tier::Quick => "quick",
            Tier::Thorough => "thorough",
        }
    }
    pub fn pick<T>(&self, q: T, t: T) -> T {
        match self {
            Tier::Quick => q,
            Tier::Thorough => t,
        }
    }
}

#[derive(Debug, Clone)]
pub struct Failure {
    /// signature used for matching known findings, e.g. `C08/trailing-zero-literal-rejected`
    pub key: String,
    pub msg: String,
}

pub type R = Result<(), Failure>;

#[derive(Default)]
pub struct Stats {
    pub evaluations: u64,
    pub nontrivial: HashSet<u64>,
    pub classes: BTreeMap<String, u64>,
    pub samples: Vec<Value>,
    pub known_hits: BTreeMap<String, (u64, String)>,
}

impl Stats {
    pub fn merge(&mut self, o: Stats) {
        self.evaluations += o.evaluations;
        self.nontrivial.extend(o.nontrivial);
        for (k, v) in o.classes {
            *self.classes.entry(k).or_default() += v;
        }
        for s in o.samples {
            if self.samples.len() < 6 {
                self.samples.push(s);
            }
        }
        for (k, (n, d)) in o.known_hits {
            let e = self.known_hits.entry(k).or_insert((0, d));
            e.0 += n;
        }
    }
}

pub struct Ctx<'a> {
    pub stats: &'a mut Stats,
    pub known: &'a BTreeSet<String>,
    pub tier: Tier,
    /// false while proptest is shrinking: nothing is counted then
    pub counting: bool,
    /// replay mode: print details
    pub verbose: bool,
}

impl Ctx<'_> {
    /// one evaluation (= one oracle comparison of the kind stated in `rule`)
    pub fn eval(&mut self, n: u64) {
        if self.counting {
            self.stats.evaluations += n;
        }
    }
    pub fn class(&mut self, name: &str) {
        if self.counting {
            *self.stats.classes.entry(name.to_string()).or_default() += 1;
        }
    }
    pub fn class_n(&mut self, name: &str, n: u64) {
        if self.counting && n > 0 {
            *self.stats.classes.entry(name.to_string()).or_default() += n;
        }
    }
    pub fn nontrivial(&mut self, fp: u64) {
        if self.counting {
            self.stats.nontrivial.insert(fp);
        }
    }
    pub fn sample(&mut self, v: impl FnOnce() -> Value) {
        if self.counting && self.stats.samples.len() < 4 {
            self.stats.samples.push(v());
        }
    }
    /// Report a failed oracle.  If its signature is a listed known finding it is
    /// recorded and `Ok(())` is returned so the caller carries on.
    pub fn fail(&mut self, key: &str, msg: impl FnOnce() -> String) -> R {
        // One known engine panic can surface through any check that commits tokens or asks for forced bytes on a
        // grammar with a lazy / suffix= / stop= lexeme: `assert!(!state.has_lowest_match())` in Lexer::next_byte.
        // It gets its own signature, whatever oracle noticed it (see known_findings.json).
        let msg_text = msg();
        let rekeyed;
        let key = if msg_text.contains("assertion failed: !state.has_lowest_match()") && (msg_text.contains("suffix=") || msg_text.contains("[lazy") || msg_text.contains("stop=")) {
            rekeyed = format!("{}/lazy-lexeme-lowest-match-state-panics", key.split('/').next().unwrap_or(key));
            rekeyed.as_str()
        } else {
            key
        };
        let msg = move || msg_text;
        // survey mode (development aid): log every failure and carry on
        if let Ok(p) = std::env::var("VERIF_SURVEY") {
            use std::io::Write;
            if let Ok(mut f) = std::fs::OpenOptions::new().create(true).append(true).open(p) {
                let line = format!("{}\t{}\n", key, msg().replace('\n', " "));
                let _ = f.write_all(line.as_bytes());
            }
            return Ok(());
        }
        if self.known.contains(key) {
            if self.counting {
                let e = self
                    .stats
                    .known_hits
                    .entry(key.to_string())
                    .or_insert_with(|| (0, truncate_str(&msg(), 400)));
                e.0 += 1;
            }
            Ok(())
        } else {
            Err(Failure {
                key: key.to_string(),
                msg: msg(),
            })
        }
    }
}

pub trait Prop: Sync {
    type Case: Serialize + DeserializeOwned + std::fmt::Debug + Clone + Send + 'static;
    const ID: &'static str;
    fn rule(&self) -> String;
    fn assumptions(&self) -> Vec<String> {
        vec![]
    }
    /// cases per shard (16 shards)
    fn cases(&self, tier: Tier) -> u32;
    fn strategy(&self, tier: Tier) -> BoxedStrategy<Self::Case>;
    fn run(&self, case: &Self::Case, ctx: &mut Ctx) -> R;
    /// seed-independent exhaustive part (grids); called once per run
    fn exhaustive(&self, _tier: Tier, _known: &BTreeSet<String>) -> Vec<(Stats, Option<(Self::Case, Failure)>)> {
        vec![]
    }
}

pub const SHARDS: usize = 16;

pub fn debug() -> bool {
    std::env::var("VERIF_DEBUG").is_ok()
}

#[derive(serde::Deserialize, Debug, Clone)]
pub struct KnownFinding {
    pub property: String,
    pub key: String,
    pub status: String,
    #[serde(default)]
    pub commit: Option<String>,
    pub description: String,
}

pub fn load_known(prop: &str) -> (BTreeSet<String>, BTreeMap<String, String>) {
    let p = verif_root().join("known_findings.json");
    let mut set = BTreeSet::new();
    let mut desc = BTreeMap::new();
    if let Ok(s) = std::fs::read_to_string(&p) {
        let v: Vec<KnownFinding> = serde_json::from_str(&s).expect("known_findings.json");
        for k in v {
            if k.property == prop && k.status == "known" {
                desc.insert(k.key.clone(), k.description.clone());
                set.insert(k.key);
            }
        }
    }
    (set, desc)
}

pub fn seed_from_env() -> u64 {
    std::env::var("VERIF_SEED")
        .ok()
        .and_then(|s| s.trim().parse::<i64>().ok())
        .map(|v| v as u64)
        .unwrap_or(0)
}

fn run_guarded<P: Prop>(p: &P, case: &P::Case, ctx: &mut Ctx) -> R {
    let r = std::panic::catch_unwind(std::panic::AssertUnwindSafe(|| p.run(case, ctx)));
    match r {
        Ok(r) => r,
        Err(e) => {
            let msg = if let Some(s) = e.downcast_ref::<String>() {
                s.clone()
            } else if let Some(s) = e.downcast_ref::<&str>() {
                s.to_string()
            } else {
                "non-string panic".to_string()
            };
            ctx.fail("panic-escaped-to-caller", || {
                format!("panic escaped to the caller of the public API: {}", msg)
            })
        }
    }
}

pub struct Outcome {
    pub stats: Stats,
    pub violations: Vec<(String, Failure)>, // replay path, failure
    pub wall_s: f64,
}

fn write_replay<C: Serialize>(prop: &str, case: &C, f: &Failure) -> String {
    let v = json!({
        "property": prop,
        "key": f.key,
        "message": truncate_str(&f.msg, 4000),
        "case": case,
    });
    let txt = serde_json::to_string_pretty(&v).unwrap();
    let h = Fnv::new().str(&serde_json::to_string(&json!(case)).unwrap()).finish();
    let dir = verif_root().join("replays").join(prop);
    let _ = std::fs::create_dir_all(&dir);
    let path = dir.join(format!("violation-{:016x}.json", h));
    std::fs::write(&path, txt).expect("write replay");
    path.to_string_lossy().to_string()
}

/// Replays every file in replays/<prop>/ (regressions and earlier violations).
fn replay_dir<P: Prop>(p: &P, tier: Tier, known: &BTreeSet<String>, out: &mut Outcome) {
    let dir = verif_root().join("replays").join(P::ID);
    let mut files: Vec<_> = match std::fs::read_dir(&dir) {
        Ok(rd) => rd.filter_map(|e| e.ok()).map(|e| e.path()).collect(),
        Err(_) => return,
    };
    files.sort();
    for f in files {
        if f.extension().and_then(|e| e.to_str()) != Some("json") {
            continue;
        }
        let txt = match std::fs::read_to_string(&f) {
            Ok(t) => t,
            Err(_) => continue,
        };
        let v: Value = match serde_json::from_str(&txt) {
            Ok(v) => v,
            Err(e) => {
                eprintln!("replay file {} unreadable: {}", f.display(), e);
                continue;
            }
        };
        let case: P::Case = match serde_json::from_value(v["case"].clone()) {
            Ok(c) => c,
            Err(e) => {
                eprintln!("replay file {}: stale case format ({}), skipped", f.display(), e);
                continue;
            }
        };
        let mut ctx = Ctx {
            stats: &mut out.stats,
            known,
            tier,
            counting: true,
            verbose: false,
        };
        ctx.class("replayed_files");
        if let Err(fl) = run_guarded(p, &case, &mut ctx) {
            out.violations.push((f.to_string_lossy().to_string(), fl));
        }
    }
}

pub fn run_prop<P: Prop>(p: &P, tier: Tier, seed: u64) -> Outcome {
    let t0 = Instant::now();
    let (known, _) = load_known(P::ID);
    let mut out = Outcome {
        stats: Stats::default(),
        violations: vec![],
        wall_s: 0.0,
    };
    replay_dir(p, tier, &known, &mut out);

    // exhaustive, seed independent part
    for (st, viol) in p.exhaustive(tier, &known) {
        out.stats.merge(st);
        if let Some((case, f)) = viol {
            let path = write_replay(P::ID, &case, &f);
            out.violations.push((path, f));
        }
    }

    let cases = p.cases(tier);
    let results: Mutex<Vec<(Stats, Option<(P::Case, Failure)>)>> = Mutex::new(vec![]);
    if cases > 0 {
        std::thread::scope(|s| {
            for shard in 0..SHARDS {
                let known = &known;
                let results = &results;
                std::thread::Builder::new()
                    .stack_size(64 << 20)
                    .spawn_scoped(s, move || {
                        let shard_seed = Fnv::new().u64(seed).str(P::ID).u64(shard as u64).finish();
                        let mut seed_bytes = [0u8; 32];
                        for i in 0..4 {
                            let v = Fnv::new().u64(shard_seed).u64(i as u64).finish();
                            seed_bytes[i * 8..i * 8 + 8].copy_from_slice(&v.to_le_bytes());
                        }
                        let _ = seed_bytes;
                        let cfg = Config {
                            cases,
                            failure_persistence: None,
                            rng_seed: RngSeed::Fixed(shard_seed),
                            max_shrink_iters: 600,
                            max_shrink_time: 60_000,
                            max_global_rejects: 1 << 20,
                            max_local_rejects: 1 << 20,
                            ..Config::default()
                        };
                        let mut runner = TestRunner::new(cfg);
                        let stats = Mutex::new(Stats::default());
                        let failed = AtomicBool::new(false);
                        let last_fail: Mutex<Option<Failure>> = Mutex::new(None);
                        let strat = p.strategy(tier);
                        let res = runner.run(&strat, |case| {
                            let mut st = stats.lock().unwrap();
                            let counting = !failed.load(Ordering::Relaxed);
                            let mut ctx = Ctx {
                                stats: &mut st,
                                known,
                                tier,
                                counting,
                                verbose: false,
                            };
                            if counting && shard == 0 {
                                ctx.sample(|| serde_json::to_value(&case).unwrap_or(Value::Null));
                            }
                            let t_case = Instant::now();
                            let r = run_guarded(p, &case, &mut ctx);
                            if debug() && t_case.elapsed().as_secs_f64() > 2.0 {
                                eprintln!("[{}] shard {} slow case {:.1}s: {}", P::ID, shard, t_case.elapsed().as_secs_f64(), truncate_str(&serde_json::to_string(&case).unwrap_or_default(), 600));
                            }
                            match r {
                                Ok(()) => Ok(()),
                                Err(f) => {
                                    if debug() && counting {
                                        eprintln!("[{}] shard {} first failure: {} :: {}", P::ID, shard, f.key, truncate_str(&f.msg, 600));
                                    }
                                    if counting {
                                        // report at once, with the unshrunk case: a faulty engine may blow up (memory, time)
                                        // while the case is being shrunk, and the finding must not be lost with the process
                                        let path = write_replay(P::ID, &case, &f);
                                        println!("VIOLATION property={} replay={}", P::ID, path);
                                        println!("  key={} :: {} [unshrunk; a shrunk replay follows when shrinking completes]", f.key, truncate_str(&f.msg, 300));
                                    }
                                    failed.store(true, Ordering::Relaxed);
                                    let m = f.msg.clone();
                                    *last_fail.lock().unwrap() = Some(f);
                                    Err(TestCaseError::fail(m))
                                }
                            }
                        });
                        let st = stats.into_inner().unwrap();
                        let viol = match res {
                            Ok(()) => None,
                            Err(TestError::Fail(_reason, case)) => {
                                // re-run the minimal case to get its own failure record
                                let mut dummy = Stats::default();
                                let mut ctx = Ctx {
                                    stats: &mut dummy,
                                    known,
                                    tier,
                                    counting: false,
                                    verbose: false,
                                };
                                let f = match run_guarded(p, &case, &mut ctx) {
                                    Err(f) => f,
                                    Ok(()) => last_fail.lock().unwrap().clone().unwrap_or(Failure {
                                        key: "unstable".into(),
                                        msg: "failure did not reproduce on the shrunk case".into(),
                                    }),
                                };
                                Some((case, f))
                            }
                            Err(TestError::Abort(r)) => {
                                eprintln!("[{}] shard {} aborted: {}", P::ID, shard, r);
                                None
                            }
                        };
                        results.lock().unwrap().push((st, viol));
                    })
                    .unwrap();
            }
        });
    }
    let mut rs = results.into_inner().unwrap();
    // deterministic merge order is not needed for counts; samples come from shard 0
    for (st, viol) in rs.drain(..) {
        out.stats.merge(st);
        if let Some((case, f)) = viol {
            let path = write_replay(P::ID, &case, &f);
            out.violations.push((path, f));
        }
    }
    out.wall_s = t0.elapsed().as_secs_f64();
    out
}

pub fn replay_file<P: Prop>(p: &P, path: &str) -> Outcome {
    let t0 = Instant::now();
    let (known, _) = load_known(P::ID);
    let mut out = Outcome {
        stats: Stats::default(),
        violations: vec![],
        wall_s: 0.0,
    };
    let txt = std::fs::read_to_string(path).unwrap_or_else(|e| {
        eprintln!("cannot read {}: {}", path, e);
        std::process::exit(2)
    });
    let v: Value = serde_json::from_str(&txt).unwrap_or_else(|e| {
        eprintln!("cannot parse {}: {}", path, e);
        std::process::exit(2)
    });
    let cv = if v.get("case").is_some() { v["case"].clone() } else { v };
    let case: P::Case = serde_json::from_value(cv).unwrap_or_else(|e| {
        eprintln!("cannot decode case in {}: {}", path, e);
        std::process::exit(2)
    });
    let mut ctx = Ctx {
        stats: &mut out.stats,
        known: &known,
        tier: Tier::Quick,
        counting: true,
        verbose: true,
    };
    if let Err(f) = run_guarded(p, &case, &mut ctx) {
        out.violations.push((path.to_string(), f));
    }
    out.wall_s = t0.elapsed().as_secs_f64();
    out
}

/// Prints the result lines, writes the evidence file, returns the exit code.
pub fn finish<P: Prop>(p: &P, out: Outcome, tier: Tier, seed: u64, write_evidence: bool) -> i32 {
    let (_, descs) = load_known(P::ID);
    for (k, (n, first)) in &out.stats.known_hits {
        let d = descs.get(k).cloned().unwrap_or_default();
        println!(
            "KNOWN-FINDING: property={} {} ({} hits; {}; first: {})",
            P::ID,
            k,
            n,
            d,
            truncate_str(first, 200).replace('\n', " ")
        );
    }
    for (path, f) in &out.violations {
        println!("VIOLATION property={} replay={}", P::ID, path);
        println!("  key={} :: {}", f.key, truncate_str(&f.msg, 1500));
    }
    if write_evidence {
        let mut classes = serde_json::Map::new();
        for (k, v) in &out.stats.classes {
            classes.insert(k.clone(), json!(v));
        }
        let samples: Vec<Value> = out
            .stats
            .samples
            .iter()
            .map(|s| {
                let t = serde_json::to_string(s).unwrap();
                if t.len() > 3000 {
                    json!(truncate_str(&t, 3000))
                } else {
                    s.clone()
                }
            })
            .collect();
        let ev = json!({
            "property_id": P::ID,
            "tier": tier.name(),
            "seed": seed as i64,
            "level": "exploration",
            "coverage": {
                "evaluations": out.stats.evaluations,
                "distinct_nontrivial": out.stats.nontrivial.len(),
                "rule": p.rule(),
                "samples": samples,
                "classes": classes,
                "known_findings_hit": out.stats.known_hits.iter().map(|(k,(n,_))| json!({"key":k,"hits":n})).collect::<Vec<_>>(),
                "shards": SHARDS,
                "cases_per_shard": p.cases(tier),
            },
            "assumptions": p.assumptions(),
            "wall_s": out.wall_s,
            "violations": out.violations.len(),
        });
        let dir = verif_root().join("evidence");
        let _ = std::fs::create_dir_all(&dir);
        std::fs::write(
            dir.join(format!("{}.json", P::ID)),
            serde_json::to_string_pretty(&ev).unwrap(),
        )
        .expect("write evidence");
    }
    println!(
        "[{}] tier={} seed={} evaluations={} distinct_nontrivial={} violations={} known_hits={} wall={:.1}s",
        P::ID,
        tier.name(),
        seed,
        out.stats.evaluations,
        out.stats.nontrivial.len(),
        out.violations.len(),
        out.stats.known_hits.values().map(|v| v.0).sum::<u64>(),
        out.wall_s
    );
    if out.violations.is_empty() {
        0
    } else {
        1
    }
}

/// Run `f` over `items` on 16 threads; each worker owns a `Stats`.
pub fn par_chunks<T: Sync, C: Send, F>(items: &[T], known: &BTreeSet<String>, tier: Tier, f: F) -> Vec<(Stats, Option<(C, Failure)>)>
where
    F: Fn(&T, &mut Ctx) -> Result<(), (C, Failure)> + Sync,
{
    let n = SHARDS;
    let res = Mutex::new(Vec::new());
    std::thread::scope(|s| {
        for w in 0..n {
            let res = &res;
            let f = &f;
            std::thread::Builder::new()
                .stack_size(64 << 20)
                .spawn_scoped(s, move || {
                    let mut st = Stats::default();
                    let mut viol = None;
                    let mut i = w;
                    while i < items.len() {
                        let mut ctx = Ctx {
                            stats: &mut st,
                            known,
                            tier,
                            counting: true,
                            verbose: false,
                        };
                        let r = std::panic::catch_unwind(std::panic::AssertUnwindSafe(|| f(&items[i], &mut ctx)));
                        match r {
                            Ok(Ok(())) => {}
                            Ok(Err(v)) => {
                                viol = Some(v);
                                break;
                            }
                            Err(e) => {
                                // cannot build a case here; re-raise so the process fails loudly (exit 101 -> run.sh maps to 2)
                                std::panic::resume_unwind(e);
                            }
                        }
                        i += n;
                    }
                    res.lock().unwrap().push((st, viol));
                })
                .unwrap();
        }
    });
    res.into_inner().unwrap()
}

/// helper for strategies: any boxed
pub fn boxed<S: Strategy + 'static>(s: S) -> BoxedStrategy<S::Value> {
    s.boxed()
}
