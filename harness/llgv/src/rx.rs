//! Regular-expression AST of the harness, its renderers (Rust-regex syntax and Lark
//! terminal syntax) and the independent reference automaton (R-DFA).
//!
//! The reference uses the classical pipeline (Thompson NFA -> subset construction ->
//! product/complement -> Moore minimisation), operating on bytes, with its own UTF-8
//! class compiler.  Nothing here calls into llguidance / derivre / regex-syntax.

use proptest::prelude::*;
use serde::{Deserialize, Serialize};
use std::collections::HashMap;

#[derive(Clone, Debug, Serialize, Deserialize, PartialEq, Eq, Hash)]
pub enum SubKind {
    Chars,
    Words,
    Chunks,
}

#[derive(Clone, Debug, Serialize, Deserialize, PartialEq, Eq, Hash)]
pub enum Rx {
    Lit(String),
    /// case-insensitive literal
    LitI(String),
    Class {
        neg: bool,
        items: Vec<(char, char)>,
    },
    /// `.` : any scalar value except `\n`
    Dot,
    /// `(?s:.)` : any scalar value
    DotAll,
    Cat(Vec<Rx>),
    Alt(Vec<Rx>),
    Opt(Box<Rx>),
    Star(Box<Rx>),
    Plus(Box<Rx>),
    Rep(Box<Rx>, u32, Option<u32>),
    And(Vec<Rx>),
    Not(Box<Rx>),
    /// `%regex {"substring_*": ...}`: any contiguous run of chunks
    Substr(SubKind, Vec<String>),
}

pub const ALPHA: &[char] = &['a', 'b', 'c', '0', '1', ' ', '\n', '-', 'é', '€', '😀'];

impl Rx {
    pub fn has_and_not(&self) -> bool {
        match self {
            Rx::And(_) | Rx::Not(_) => true,
            Rx::Substr(..) => false,
            Rx::Cat(v) | Rx::Alt(v) => v.iter().any(|x| x.has_and_not()),
            Rx::Opt(x) | Rx::Star(x) | Rx::Plus(x) | Rx::Rep(x, _, _) => x.has_and_not(),
            _ => false,
        }
    }
    pub fn has_not(&self) -> bool {
        match self {
            Rx::Not(_) => true,
            Rx::Cat(v) | Rx::Alt(v) | Rx::And(v) => v.iter().any(|x| x.has_not()),
            Rx::Opt(x) | Rx::Star(x) | Rx::Plus(x) | Rx::Rep(x, _, _) => x.has_not(),
            _ => false,
        }
    }
    pub fn has_substr(&self) -> bool {
        match self {
            Rx::Substr(..) => true,
            Rx::Cat(v) | Rx::Alt(v) | Rx::And(v) => v.iter().any(|x| x.has_substr()),
            Rx::Opt(x) | Rx::Star(x) | Rx::Plus(x) | Rx::Rep(x, _, _) | Rx::Not(x) => x.has_substr(),
            _ => false,
        }
    }
    pub fn features(&self, out: &mut Vec<&'static str>) {
        let mut push = |s: &'static str| {
            if !out.contains(&s) {
                out.push(s)
            }
        };
        match self {
            Rx::Lit(s) => {
                if !s.is_ascii() {
                    push("multibyte")
                }
            }
            Rx::LitI(s) => {
                push("nocase");
                if !s.is_ascii() {
                    push("multibyte")
                }
            }
            Rx::Class { neg, items } => {
                if *neg {
                    push("negclass")
                }
                if items.iter().any(|(a, b)| !a.is_ascii() || !b.is_ascii()) {
                    push("multibyte")
                }
            }
            Rx::Dot | Rx::DotAll => push("dot"),
            Rx::Cat(v) | Rx::Alt(v) => v.iter().for_each(|x| x.features(out)),
            Rx::Opt(x) | Rx::Star(x) | Rx::Plus(x) => x.features(out),
            Rx::Rep(x, _, _) => {
                if !out.contains(&"bounded_rep") {
                    out.push("bounded_rep")
                }
                x.features(out)
            }
            Rx::And(v) => {
                if !out.contains(&"and") {
                    out.push("and")
                }
                v.iter().for_each(|x| x.features(out))
            }
            Rx::Not(x) => {
                if !out.contains(&"not") {
                    out.push("not")
                }
                x.features(out)
            }
            Rx::Substr(..) => push("substring"),
        }
    }

    /// rough number of NFA positions after expanding repetitions
    pub fn weight(&self) -> usize {
        match self {
            Rx::Lit(s) | Rx::LitI(s) => s.len().max(1),
            Rx::Class { .. } | Rx::Dot | Rx::DotAll => 4,
            Rx::Cat(v) | Rx::Alt(v) | Rx::And(v) => v.iter().map(|x| x.weight()).sum::<usize>() + 1,
            Rx::Opt(x) | Rx::Star(x) | Rx::Not(x) => x.weight() + 1,
            Rx::Plus(x) => 2 * x.weight() + 1,
            Rx::Rep(x, m, n) => {
                let k = n.unwrap_or(*m + 1).max(*m).max(1) as usize;
                x.weight() * k + 1
            }
            Rx::Substr(_, c) => c.iter().map(|s| s.len()).sum::<usize>() * 2 + 1,
        }
    }
}

// ------------------------------------------------------------------------------------------
// rendering
// ------------------------------------------------------------------------------------------

fn rx_escape_char(c: char, in_class: bool, out: &mut String) {
    match c {
        '\n' => out.push_str("\\n"),
        '\\' | '.' | '+' | '*' | '?' | '(' | ')' | '|' | '[' | ']' | '{' | '}' | '^' | '$' | '#'
        | '&' | '-' | '~' | '/' => {
            out.push('\\');
            out.push(c);
        }
        ' ' if in_class => out.push(' '),
        _ => out.push(c),
    }
}

fn rx_lit(s: &str, out: &mut String) {
    for c in s.chars() {
        rx_escape_char(c, false, out);
    }
}

fn class_str(neg: bool, items: &[(char, char)]) -> String {
    let mut s = String::from("[");
    if neg {
        s.push('^');
    }
    for (a, b) in items {
        rx_escape_char(*a, true, &mut s);
        if a != b {
            s.push('-');
            rx_escape_char(*b, true, &mut s);
        }
    }
    s.push(']');
    s
}

impl Rx {
    /// Rust-regex syntax; `None` when the tree uses `&`, `~` or substring.
    pub fn to_regex(&self) -> Option<String> {
        let mut s = String::new();
        if self.regex_into(&mut s) {
            Some(s)
        } else {
            None
        }
    }

    fn regex_into(&self, out: &mut String) -> bool {
        match self {
            Rx::Lit(s) => {
                if s.is_empty() {
                    out.push_str("()");
                } else if s.chars().count() == 1 {
                    rx_lit(s, out);
                } else {
                    out.push_str("(?:");
                    rx_lit(s, out);
                    out.push(')');
                }
            }
            Rx::LitI(s) => {
                out.push_str("(?i:");
                rx_lit(s, out);
                out.push(')');
            }
            Rx::Class { neg, items } => out.push_str(&class_str(*neg, items)),
            Rx::Dot => out.push('.'),
            Rx::DotAll => out.push_str("(?s:.)"),
            Rx::Cat(v) => {
                out.push_str("(?:");
                for x in v {
                    if !x.regex_into(out) {
                        return false;
                    }
                }
                out.push(')');
            }
            Rx::Alt(v) => {
                out.push_str("(?:");
                for (i, x) in v.iter().enumerate() {
                    if i > 0 {
                        out.push('|');
                    }
                    if !x.regex_into(out) {
                        return false;
                    }
                }
                out.push(')');
            }
            Rx::Opt(x) | Rx::Star(x) | Rx::Plus(x) | Rx::Rep(x, _, _) => {
                out.push_str("(?:");
                if !x.regex_into(out) {
                    return false;
                }
                out.push(')');
                match self {
                    Rx::Opt(_) => out.push('?'),
                    Rx::Star(_) => out.push('*'),
                    Rx::Plus(_) => out.push('+'),
                    Rx::Rep(_, m, Some(n)) => {
                        if m == n {
                            out.push_str(&format!("{{{}}}", m))
                        } else {
                            out.push_str(&format!("{{{},{}}}", m, n))
                        }
                    }
                    Rx::Rep(_, m, None) => out.push_str(&format!("{{{},}}", m)),
                    _ => unreachable!(),
                }
            }
            Rx::And(_) | Rx::Not(_) | Rx::Substr(..) => return false,
        }
        true
    }

    /// Lark terminal expression.  `fine`: operators are expressed at the Lark level all the
    /// way down; otherwise sub-trees expressible as a regex are emitted as `/.../`.
    pub fn to_lark_expr(&self, fine: bool) -> String {
        if !fine {
            if let Some(r) = self.to_regex() {
                return format!("/{}/", r);
            }
        }
        match self {
            Rx::Lit(s) => serde_json::to_string(s).unwrap(),
            Rx::LitI(s) => format!("{}i", serde_json::to_string(s).unwrap()),
            Rx::Class { .. } | Rx::Dot | Rx::DotAll => format!("/{}/", self.to_regex().unwrap()),
            Rx::Cat(v) => {
                if v.is_empty() {
                    return "\"\"".to_string();
                }
                let parts: Vec<String> = v.iter().map(|x| x.to_lark_expr(fine)).collect();
                format!("( {} )", parts.join(" "))
            }
            Rx::Alt(v) => {
                let parts: Vec<String> = v.iter().map(|x| x.to_lark_expr(fine)).collect();
                format!("( {} )", parts.join(" | "))
            }
            Rx::And(v) => {
                let parts: Vec<String> = v.iter().map(|x| x.to_lark_expr(fine)).collect();
                format!("( {} )", parts.join(" & "))
            }
            Rx::Not(x) => format!("~( {} )", x.to_lark_expr(fine)),
            Rx::Opt(x) => format!("( {} )?", x.to_lark_expr(fine)),
            Rx::Star(x) => format!("( {} )*", x.to_lark_expr(fine)),
            Rx::Plus(x) => format!("( {} )+", x.to_lark_expr(fine)),
            Rx::Rep(x, m, Some(n)) => format!("( {} ){{{},{}}}", x.to_lark_expr(fine), m, n),
            Rx::Rep(x, m, None) => format!("( {} ){{{},}}", x.to_lark_expr(fine), m),
            Rx::Substr(k, chunks) => {
                let v = match k {
                    SubKind::Chars => serde_json::json!({"substring_chars": chunks.concat()}),
                    SubKind::Words => serde_json::json!({"substring_words": chunks.concat()}),
                    SubKind::Chunks => serde_json::json!({"substring_chunks": chunks}),
                };
                format!("%regex {}", v)
            }
        }
    }

    /// can this tree be rendered at the Lark level? (`{m,0}` is a syntax error there)
    pub fn lark_ok(&self) -> bool {
        match self {
            Rx::Rep(x, _, n) => *n != Some(0) && x.lark_ok(),
            Rx::Cat(v) | Rx::Alt(v) | Rx::And(v) => v.iter().all(|x| x.lark_ok()),
            Rx::Opt(x) | Rx::Star(x) | Rx::Plus(x) | Rx::Not(x) => x.lark_ok(),
            _ => true,
        }
    }

    pub fn to_lark_grammar(&self, fine: bool) -> String {
        format!("start: T0\nT0: {}\n", self.to_lark_expr(fine))
    }
}

/// chunks for `substring_words`, as documented: split keeping separators
pub fn words_chunks(s: &str) -> Vec<String> {
    // documented example: "foo bar. baz" -> ["foo", " ", "bar", ".", " ", "baz"]
    // i.e. maximal runs of word characters, every other character on its own
    let mut out = Vec::new();
    let mut cur = String::new();
    for c in s.chars() {
        if c.is_alphanumeric() || c == '_' {
            cur.push(c);
        } else {
            if !cur.is_empty() {
                out.push(std::mem::take(&mut cur));
            }
            out.push(c.to_string());
        }
    }
    if !cur.is_empty() {
        out.push(cur);
    }
    out
}

// ------------------------------------------------------------------------------------------
// reference automaton
// ------------------------------------------------------------------------------------------

#[derive(Default, Clone)]
pub struct Nfa {
    pub trans: Vec<Vec<(u8, u8, usize)>>,
    pub eps: Vec<Vec<usize>>,
}

impl Nfa {
    fn new_state(&mut self) -> usize {
        self.trans.push(vec![]);
        self.eps.push(vec![]);
        self.trans.len() - 1
    }
    fn edge(&mut self, a: usize, lo: u8, hi: u8, b: usize) {
        self.trans[a].push((lo, hi, b));
    }
    fn e(&mut self, a: usize, b: usize) {
        self.eps[a].push(b);
    }
}

#[derive(Clone)]
pub struct Dfa {
    pub trans: Vec<[u32; 256]>,
    pub acc: Vec<bool>,
    pub live: Vec<bool>,
}

#[derive(Debug, Clone)]
pub struct TooBig;

pub const MAX_DFA_STATES: usize = 6000;

fn norm_ranges(mut v: Vec<(u32, u32)>) -> Vec<(u32, u32)> {
    v.retain(|(a, b)| a <= b);
    v.sort();
    let mut r: Vec<(u32, u32)> = Vec::new();
    for (a, b) in v {
        if let Some(l) = r.last_mut() {
            if a <= l.1.saturating_add(1) {
                l.1 = l.1.max(b);
                continue;
            }
        }
        r.push((a, b));
    }
    r
}

fn intersect_ranges(v: &[(u32, u32)], lo: u32, hi: u32) -> Vec<(u32, u32)> {
    v.iter()
        .filter_map(|&(a, b)| {
            let a2 = a.max(lo);
            let b2 = b.min(hi);
            if a2 <= b2 {
                Some((a2, b2))
            } else {
                None
            }
        })
        .collect()
}

fn complement_ranges(v: &[(u32, u32)]) -> Vec<(u32, u32)> {
    let v = norm_ranges(v.to_vec());
    let mut r = Vec::new();
    let mut next = 0u32;
    for (a, b) in v {
        if a > next {
            r.push((next, a - 1));
        }
        next = b + 1;
    }
    if next <= 0x10FFFF {
        r.push((next, 0x10FFFF));
    }
    r
}

/// 0 = disjoint, 1 = partial, 2 = fully inside one range
fn classify(set: &[(u32, u32)], lo: u32, hi: u32) -> u8 {
    let mut any = false;
    for &(a, b) in set {
        if a <= lo && hi <= b {
            return 2;
        }
        if a <= hi && lo <= b {
            any = true;
        }
    }
    if any {
        1
    } else {
        0
    }
}

/// Adds to `nfa` a fragment from `from` to `to` accepting the UTF-8 encoding of exactly the
/// scalar values in `ranges`.
pub fn class_nfa(nfa: &mut Nfa, ranges: &[(u32, u32)], from: usize, to: usize) {
    let ranges = norm_ranges(ranges.to_vec());
    // 1 byte
    for (a, b) in intersect_ranges(&ranges, 0, 0x7F) {
        nfa.edge(from, a as u8, b as u8, to);
    }
    // valid scalar ranges per encoded length (surrogates excluded)
    let valid: [Vec<(u32, u32)>; 3] = [
        vec![(0x80, 0x7FF)],
        vec![(0x800, 0xD7FF), (0xE000, 0xFFFF)],
        vec![(0x10000, 0x10FFFF)],
    ];
    for n in 2..=4usize {
        let mut set = Vec::new();
        for &(lo, hi) in &valid[n - 2] {
            set.extend(intersect_ranges(&ranges, lo, hi));
        }
        if set.is_empty() {
            continue;
        }
        // full[k]: state accepting any k continuation bytes then `to`
        let mut full = vec![to];
        for k in 1..n {
            let s = nfa.new_state();
            let prev = full[k - 1];
            nfa.edge(s, 0x80, 0xBF, prev);
            full.push(s);
        }
        let (lead_base, lead_bits): (u32, u32) = match n {
            2 => (0xC0, 5),
            3 => (0xE0, 4),
            _ => (0xF0, 3),
        };
        for x in 0..(1u32 << lead_bits) {
            let rem = n - 1;
            let lo = x << (6 * rem);
            let hi = lo | ((1u32 << (6 * rem)) - 1);
            match classify(&set, lo, hi) {
                0 => {}
                2 => nfa.edge(from, (lead_base | x) as u8, (lead_base | x) as u8, full[rem]),
                _ => {
                    let s = nfa.new_state();
                    nfa.edge(from, (lead_base | x) as u8, (lead_base | x) as u8, s);
                    cont(nfa, &set, s, x, rem, &full);
                }
            }
        }
    }
    fn cont(nfa: &mut Nfa, set: &[(u32, u32)], st: usize, prefix: u32, rem: usize, full: &[usize]) {
        // reading one continuation byte out of `rem`
        for v in 0..64u32 {
            let p = (prefix << 6) | v;
            let r2 = rem - 1;
            let lo = p << (6 * r2);
            let hi = lo | ((1u32 << (6 * r2)) - 1);
            match classify(set, lo, hi) {
                0 => {}
                2 => nfa.edge(st, (0x80 | v) as u8, (0x80 | v) as u8, full[r2]),
                _ => {
                    let s = nfa.new_state();
                    nfa.edge(st, (0x80 | v) as u8, (0x80 | v) as u8, s);
                    cont(nfa, set, s, p, r2, full);
                }
            }
        }
    }
}

fn fold_variants(c: char) -> Vec<char> {
    // simple case folding for the characters the generators use (ASCII letters + é/É);
    // the generators never emit k/s (whose folds include U+212A / U+017F)
    let mut v = vec![c];
    if c.is_ascii_lowercase() {
        v.push(c.to_ascii_uppercase());
    } else if c.is_ascii_uppercase() {
        v.push(c.to_ascii_lowercase());
    } else if c == 'é' {
        v.push('É');
    } else if c == 'É' {
        v.push('é');
    }
    v
}

fn lit_nfa(nfa: &mut Nfa, bytes: &[u8], from: usize) -> usize {
    let mut cur = from;
    for &b in bytes {
        let n = nfa.new_state();
        nfa.edge(cur, b, b, n);
        cur = n;
    }
    cur
}

pub fn substr_strings(kind: &SubKind, chunks: &[String]) -> Vec<String> {
    let ch: Vec<String> = match kind {
        SubKind::Chars => chunks.concat().chars().map(|c| c.to_string()).collect(),
        SubKind::Words => words_chunks(&chunks.concat()),
        SubKind::Chunks => chunks.to_vec(),
    };
    let mut out = vec![String::new()];
    for i in 0..ch.len() {
        let mut s = String::new();
        for c in &ch[i..] {
            s.push_str(c);
            out.push(s.clone());
        }
    }
    out
}

fn compile(rx: &Rx, nfa: &mut Nfa, from: usize) -> Result<usize, TooBig> {
    if nfa.trans.len() > 40000 {
        return Err(TooBig);
    }
    Ok(match rx {
        Rx::Lit(s) => lit_nfa(nfa, s.as_bytes(), from),
        Rx::LitI(s) => {
            let mut cur = from;
            for c in s.chars() {
                let end = nfa.new_state();
                for v in fold_variants(c) {
                    let mut buf = [0u8; 4];
                    let e = lit_nfa(nfa, v.encode_utf8(&mut buf).as_bytes(), cur);
                    nfa.e(e, end);
                }
                cur = end;
            }
            cur
        }
        Rx::Class { neg, items } => {
            let mut r: Vec<(u32, u32)> = items.iter().map(|(a, b)| (*a as u32, *b as u32)).collect();
            if *neg {
                r = complement_ranges(&r);
            }
            let end = nfa.new_state();
            class_nfa(nfa, &r, from, end);
            end
        }
        Rx::Dot => {
            let end = nfa.new_state();
            class_nfa(nfa, &[(0, 9), (11, 0x10FFFF)], from, end);
            end
        }
        Rx::DotAll => {
            let end = nfa.new_state();
            class_nfa(nfa, &[(0, 0x10FFFF)], from, end);
            end
        }
        Rx::Cat(v) => {
            let mut cur = from;
            for x in v {
                cur = compile(x, nfa, cur)?;
            }
            cur
        }
        Rx::Alt(v) => {
            let end = nfa.new_state();
            for x in v {
                let s = nfa.new_state();
                nfa.e(from, s);
                let e = compile(x, nfa, s)?;
                nfa.e(e, end);
            }
            end
        }
        Rx::Opt(x) => {
            let s = nfa.new_state();
            nfa.e(from, s);
            let e = compile(x, nfa, s)?;
            let end = nfa.new_state();
            nfa.e(e, end);
            nfa.e(from, end);
            end
        }
        Rx::Star(x) => {
            let hub = nfa.new_state();
            nfa.e(from, hub);
            let s = nfa.new_state();
            nfa.e(hub, s);
            let e = compile(x, nfa, s)?;
            nfa.e(e, hub);
            let end = nfa.new_state();
            nfa.e(hub, end);
            end
        }
        Rx::Plus(x) => {
            let mid = compile(x, nfa, from)?;
            compile(&Rx::Star(x.clone()), nfa, mid)?
        }
        Rx::Rep(x, m, n) => {
            let mut cur = from;
            for _ in 0..*m {
                cur = compile(x, nfa, cur)?;
            }
            match n {
                None => compile(&Rx::Star(x.clone()), nfa, cur)?,
                Some(n) => {
                    let end = nfa.new_state();
                    nfa.e(cur, end);
                    for _ in *m..*n {
                        let s = nfa.new_state();
                        nfa.e(cur, s);
                        cur = compile(x, nfa, s)?;
                        nfa.e(cur, end);
                    }
                    end
                }
            }
        }
        Rx::And(v) => {
            let mut d: Option<Dfa> = None;
            for x in v {
                let dx = Dfa::from_rx(x)?;
                d = Some(match d {
                    None => dx,
                    Some(p) => p.product(&dx)?,
                });
            }
            embed(nfa, &d.unwrap(), from)
        }
        Rx::Not(x) => {
            let mut d = Dfa::from_rx(x)?;
            for a in d.acc.iter_mut() {
                *a = !*a;
            }
            d.compute_live();
            embed(nfa, &d, from)
        }
        Rx::Substr(k, chunks) => {
            let end = nfa.new_state();
            for s in substr_strings(k, chunks) {
                let st = nfa.new_state();
                nfa.e(from, st);
                let e = lit_nfa(nfa, s.as_bytes(), st);
                nfa.e(e, end);
            }
            end
        }
    })
}

fn embed(nfa: &mut Nfa, d: &Dfa, from: usize) -> usize {
    let base = nfa.trans.len();
    for _ in 0..d.trans.len() {
        nfa.new_state();
    }
    let end = nfa.new_state();
    nfa.e(from, base + d.start() as usize);
    for (s, row) in d.trans.iter().enumerate() {
        if !d.live[s] {
            continue;
        }
        let mut b = 0usize;
        while b < 256 {
            let t = row[b];
            let mut e = b;
            while e + 1 < 256 && row[e + 1] == t {
                e += 1;
            }
            if d.live[t as usize] {
                nfa.edge(base + s, b as u8, e as u8, base + t as usize);
            }
            b = e + 1;
        }
        if d.acc[s] {
            nfa.e(base + s, end);
        }
    }
    end
}

impl Dfa {
    pub fn from_rx(rx: &Rx) -> Result<Dfa, TooBig> {
        let mut nfa = Nfa::default();
        let start = nfa.new_state();
        let end = compile(rx, &mut nfa, start)?;
        Dfa::from_nfa(&nfa, start, end)
    }

    pub fn from_nfa(nfa: &Nfa, start: usize, end: usize) -> Result<Dfa, TooBig> {
        let n = nfa.trans.len();
        let closure = |set: &mut Vec<usize>| {
            let mut seen = vec![false; n];
            let mut stack: Vec<usize> = set.clone();
            for &s in set.iter() {
                seen[s] = true;
            }
            while let Some(s) = stack.pop() {
                for &t in &nfa.eps[s] {
                    if !seen[t] {
                        seen[t] = true;
                        set.push(t);
                        stack.push(t);
                    }
                }
            }
            set.sort_unstable();
            set.dedup();
        };
        let mut ids: HashMap<Vec<usize>, u32> = HashMap::new();
        let mut sets: Vec<Vec<usize>> = Vec::new();
        let mut trans: Vec<[u32; 256]> = Vec::new();
        // state 0 = dead (empty set)
        ids.insert(vec![], 0);
        sets.push(vec![]);
        trans.push([0; 256]);
        let mut s0 = vec![start];
        closure(&mut s0);
        ids.insert(s0.clone(), 1);
        sets.push(s0);
        trans.push([0; 256]);
        let mut i = 1;
        while i < sets.len() {
            let cur = sets[i].clone();
            // collect boundaries
            let mut row = [0u32; 256];
            let mut b = 0usize;
            while b < 256 {
                // find the maximal run [b, e] on which the target set is constant
                let mut e = 255usize;
                let mut tgt: Vec<usize> = Vec::new();
                for &s in &cur {
                    for &(lo, hi, t) in &nfa.trans[s] {
                        let (lo, hi) = (lo as usize, hi as usize);
                        if lo <= b && b <= hi {
                            tgt.push(t);
                            e = e.min(hi);
                        } else if lo > b {
                            e = e.min(lo - 1);
                        }
                    }
                }
                closure(&mut tgt);
                let id = if let Some(&id) = ids.get(&tgt) {
                    id
                } else {
                    let id = sets.len() as u32;
                    if sets.len() >= MAX_DFA_STATES {
                        return Err(TooBig);
                    }
                    ids.insert(tgt.clone(), id);
                    sets.push(tgt);
                    trans.push([0; 256]);
                    id
                };
                for x in b..=e {
                    row[x] = id;
                }
                b = e + 1;
            }
            trans[i] = row;
            i += 1;
        }
        let acc: Vec<bool> = sets.iter().map(|s| s.binary_search(&end).is_ok()).collect();
        let mut d = Dfa {
            trans,
            acc,
            live: vec![],
        };
        d.compute_live();
        Ok(d)
    }

    pub fn start(&self) -> u32 {
        1
    }

    pub fn compute_live(&mut self) {
        let n = self.trans.len();
        // reverse reachability from accepting states
        let mut rev: Vec<Vec<u32>> = vec![vec![]; n];
        for (s, row) in self.trans.iter().enumerate() {
            let mut last = u32::MAX;
            for &t in row.iter() {
                if t != last {
                    rev[t as usize].push(s as u32);
                    last = t;
                }
            }
        }
        let mut live = self.acc.clone();
        let mut stack: Vec<u32> = (0..n as u32).filter(|&s| live[s as usize]).collect();
        while let Some(s) = stack.pop() {
            for &p in &rev[s as usize] {
                if !live[p as usize] {
                    live[p as usize] = true;
                    stack.push(p);
                }
            }
        }
        self.live = live;
    }

    pub fn product(&self, o: &Dfa) -> Result<Dfa, TooBig> {
        let mut ids: HashMap<(u32, u32), u32> = HashMap::new();
        let mut pairs = vec![(0u32, 0u32), (1u32, 1u32)];
        ids.insert((0, 0), 0);
        ids.insert((1, 1), 1);
        let mut trans: Vec<[u32; 256]> = vec![[0; 256], [0; 256]];
        let mut i = 1;
        while i < pairs.len() {
            let (a, b) = pairs[i];
            let mut row = [0u32; 256];
            for x in 0..256 {
                let ta = self.trans[a as usize][x];
                let tb = o.trans[b as usize][x];
                let key = if !self.live[ta as usize] || !o.live[tb as usize] {
                    (0, 0)
                } else {
                    (ta, tb)
                };
                let id = if let Some(&id) = ids.get(&key) {
                    id
                } else {
                    if pairs.len() >= MAX_DFA_STATES {
                        return Err(TooBig);
                    }
                    let id = pairs.len() as u32;
                    ids.insert(key, id);
                    pairs.push(key);
                    trans.push([0; 256]);
                    id
                };
                row[x] = id;
            }
            trans[i] = row;
            i += 1;
        }
        let acc = pairs
            .iter()
            .enumerate()
            .map(|(i, &(a, b))| i != 0 && self.acc[a as usize] && o.acc[b as usize])
            .collect();
        let mut d = Dfa {
            trans,
            acc,
            live: vec![],
        };
        d.compute_live();
        Ok(d)
    }

    #[inline]
    pub fn step(&self, s: u32, b: u8) -> u32 {
        self.trans[s as usize][b as usize]
    }
    pub fn run(&self, bytes: &[u8]) -> u32 {
        let mut s = self.start();
        for &b in bytes {
            s = self.step(s, b);
        }
        s
    }
    pub fn run_from(&self, mut s: u32, bytes: &[u8]) -> u32 {
        for &b in bytes {
            s = self.step(s, b);
        }
        s
    }
    pub fn accepts(&self, bytes: &[u8]) -> bool {
        self.acc[self.run(bytes) as usize]
    }
    pub fn viable(&self, bytes: &[u8]) -> bool {
        self.live[self.run(bytes) as usize]
    }
    pub fn is_live(&self, s: u32) -> bool {
        self.live[s as usize]
    }
    pub fn is_acc(&self, s: u32) -> bool {
        self.acc[s as usize]
    }
    pub fn is_empty_language(&self) -> bool {
        !self.live[1]
    }

    /// Moore minimisation; returns (number of live classes, hash of the minimal automaton)
    pub fn minimal_signature(&self) -> (usize, u64) {
        let n = self.trans.len();
        let mut class: Vec<u32> = (0..n)
            .map(|s| if !self.live[s] { 0 } else if self.acc[s] { 2 } else { 1 })
            .collect();
        loop {
            let mut sig: HashMap<(u32, Vec<u32>), u32> = HashMap::new();
            let mut next = vec![0u32; n];
            for s in 0..n {
                let key: Vec<u32> = if self.live[s] {
                    self.trans[s].iter().map(|&t| class[t as usize]).collect()
                } else {
                    vec![]
                };
                let k = (class[s], key);
                let l = sig.len() as u32;
                next[s] = *sig.entry(k).or_insert(l);
            }
            let changed = {
                let a: std::collections::HashSet<u32> = class.iter().cloned().collect();
                sig.len() != a.len()
            };
            class = next;
            if !changed {
                break;
            }
        }
        // canonical numbering by BFS from the start state
        let mut order: HashMap<u32, u32> = HashMap::new();
        let mut queue = std::collections::VecDeque::new();
        order.insert(class[1], 0);
        queue.push_back(1usize);
        let mut h = crate::util::Fnv::new();
        let mut live_classes = 0;
        while let Some(s) = queue.pop_front() {
            if self.live[s] {
                live_classes += 1;
            }
            h = h.u64(self.acc[s] as u64 + 2 * self.live[s] as u64);
            for b in 0..256 {
                let t = self.trans[s][b] as usize;
                let c = class[t];
                let l = order.len() as u32;
                let id = *order.entry(c).or_insert_with(|| {
                    queue.push_back(t);
                    l
                });
                h = h.u64(id as u64);
            }
        }
        (live_classes, h.finish())
    }

    /// a shortest accepted string from state `s` (None if not live)
    pub fn shortest_completion(&self, s: u32) -> Option<Vec<u8>> {
        if !self.live[s as usize] {
            return None;
        }
        let n = self.trans.len();
        let mut prev: Vec<Option<(u32, u8)>> = vec![None; n];
        let mut seen = vec![false; n];
        let mut q = std::collections::VecDeque::new();
        seen[s as usize] = true;
        q.push_back(s);
        while let Some(x) = q.pop_front() {
            if self.acc[x as usize] {
                let mut out = Vec::new();
                let mut c = x;
                while c != s {
                    let (p, b) = prev[c as usize].unwrap();
                    out.push(b);
                    c = p;
                }
                out.reverse();
                return Some(out);
            }
            for b in 0..256usize {
                let t = self.trans[x as usize][b];
                if self.live[t as usize] && !seen[t as usize] {
                    seen[t as usize] = true;
                    prev[t as usize] = Some((x, b as u8));
                    q.push_back(t);
                }
            }
        }
        None
    }
}

// ------------------------------------------------------------------------------------------
// strategies
// ------------------------------------------------------------------------------------------

pub fn alpha_char() -> impl Strategy<Value = char> {
    (0..ALPHA.len()).prop_map(|i| ALPHA[i])
}

pub fn lit_string(max: usize) -> impl Strategy<Value = String> {
    proptest::collection::vec(alpha_char(), 1..=max).prop_map(|v| v.into_iter().collect())
}

fn class_item() -> impl Strategy<Value = (char, char)> {
    prop_oneof![
        4 => alpha_char().prop_map(|c| (c, c)),
        1 => Just(('a', 'c')),
        1 => Just(('0', '1')),
        1 => Just(('a', 'é')),
        1 => Just(('é', '€')),
        1 => Just(('€', '😀')),
        1 => Just((' ', '1')),
        1 => Just(('\u{80}', '\u{7FF}')),
        1 => Just(('\u{7FF}', '\u{800}')),
        1 => Just(('\u{FFFF}', '\u{10000}')),
        1 => Just(('\u{D7FF}', '\u{E000}')),
    ]
}

pub fn leaf() -> impl Strategy<Value = Rx> {
    prop_oneof![
        6 => lit_string(3).prop_map(Rx::Lit),
        1 => proptest::collection::vec(prop_oneof![Just('a'), Just('b'), Just('c'), Just('é'), Just('1'), Just(' ')], 1..=3)
            .prop_map(|v| Rx::LitI(v.into_iter().collect())),
        4 => (any::<bool>().prop_map(|b| b), proptest::collection::vec(class_item(), 1..=3))
            .prop_map(|(neg, items)| Rx::Class { neg, items }),
        1 => Just(Rx::Dot),
        1 => Just(Rx::DotAll),
    ]
}

fn substr() -> impl Strategy<Value = Rx> {
    // repeated symbols over tiny alphabets matter: the suffix automaton only splits/clones states
    // when a chunk recurs in a different context (e.g. "abbabc", "mississippi")
    let small = prop_oneof![Just('a'), Just('b'), Just('c')];
    prop_oneof![
        2 => proptest::collection::vec(alpha_char(), 1..=5)
            .prop_map(|v| Rx::Substr(SubKind::Chars, vec![v.into_iter().collect()])),
        4 => proptest::collection::vec(small.clone(), 4..=12)
            .prop_map(|v| Rx::Substr(SubKind::Chars, vec![v.into_iter().collect()])),
        2 => proptest::collection::vec(prop_oneof![Just('a'), Just('b'), Just('é'), Just(' ')], 4..=10)
            .prop_map(|v| Rx::Substr(SubKind::Chars, vec![v.into_iter().collect()])),
        3 => proptest::collection::vec(
            (prop_oneof![Just("ab"), Just("c"), Just("é"), Just("a"), Just("01")], prop_oneof![Just(" "), Just("-"), Just("\n")]),
            1..=7
        )
        .prop_map(|v| Rx::Substr(SubKind::Words, vec![v.into_iter().map(|(w, s)| format!("{}{}", w, s)).collect::<String>()])),
        2 => proptest::collection::vec(lit_string(2), 1..=4).prop_map(|v| Rx::Substr(SubKind::Chunks, v)),
        3 => proptest::collection::vec(prop_oneof![Just("ab"), Just("c"), Just("é0"), Just("b")], 4..=9)
            .prop_map(|v| Rx::Substr(SubKind::Chunks, v.into_iter().map(|s| s.to_string()).collect())),
    ]
}

#[derive(Clone, Copy, Debug)]
pub struct RxOpts {
    pub and_not: bool,
    pub substr: bool,
    pub depth: u32,
    pub max_weight: usize,
}

impl Default for RxOpts {
    fn default() -> Self {
        RxOpts {
            and_not: true,
            substr: true,
            depth: 4,
            max_weight: 120,
        }
    }
}

pub fn rx_strategy(o: RxOpts) -> BoxedStrategy<Rx> {
    let lf = if o.substr {
        prop_oneof![10 => leaf(), 2 => substr()].boxed()
    } else {
        leaf().boxed()
    };
    let and_not = o.and_not;
    let s = lf.prop_recursive(o.depth, 24, 3, move |inner| {
        let rep = (inner.clone(), 0u32..=3, 0u32..=4, any::<bool>()).prop_map(|(x, m, d, unb)| {
            if unb {
                Rx::Rep(Box::new(x), m, None)
            } else {
                let n = (m + d).max(1);
                Rx::Rep(Box::new(x), m, Some(n))
            }
        });
        let base = prop_oneof![
            4 => proptest::collection::vec(inner.clone(), 2..=3).prop_map(Rx::Cat),
            4 => proptest::collection::vec(inner.clone(), 2..=3).prop_map(Rx::Alt),
            1 => inner.clone().prop_map(|x| Rx::Opt(Box::new(x))),
            2 => inner.clone().prop_map(|x| Rx::Star(Box::new(x))),
            1 => inner.clone().prop_map(|x| Rx::Plus(Box::new(x))),
            3 => rep,
        ];
        if and_not {
            prop_oneof![
                12 => base,
                2 => proptest::collection::vec(inner.clone(), 2..=2).prop_map(Rx::And),
                2 => inner.clone().prop_map(|x| Rx::Not(Box::new(x))),
                // the documented idiom: X & ~(.*Y.*)
                1 => (inner.clone(), inner).prop_map(|(x, y)| Rx::And(vec![
                    x,
                    Rx::Not(Box::new(Rx::Cat(vec![Rx::Star(Box::new(Rx::DotAll)), y, Rx::Star(Box::new(Rx::DotAll))])))
                ])),
            ]
            .boxed()
        } else {
            base.boxed()
        }
    });
    let mw = o.max_weight;
    s.prop_map(move |r| shrink_weight(r, mw)).boxed()
}

/// keep NFA sizes bounded by construction (not by rejection)
fn shrink_weight(r: Rx, max: usize) -> Rx {
    if r.weight() <= max {
        return r;
    }
    match r {
        Rx::Rep(x, m, n) => {
            let x = shrink_weight(*x, max / 3);
            let m2 = m.min(2);
            let n2 = n.map(|n| n.min(m2 + 1).max(1));
            Rx::Rep(Box::new(x), m2, n2)
        }
        Rx::Cat(v) => {
            let k = v.len().max(1);
            Rx::Cat(v.into_iter().map(|x| shrink_weight(x, max / k)).collect())
        }
        Rx::Alt(v) => {
            let k = v.len().max(1);
            Rx::Alt(v.into_iter().map(|x| shrink_weight(x, max / k)).collect())
        }
        Rx::And(v) => {
            let k = v.len().max(1);
            Rx::And(v.into_iter().map(|x| shrink_weight(x, max / k)).collect())
        }
        Rx::Opt(x) => Rx::Opt(Box::new(shrink_weight(*x, max))),
        Rx::Star(x) => Rx::Star(Box::new(shrink_weight(*x, max))),
        Rx::Plus(x) => Rx::Plus(Box::new(shrink_weight(*x, max / 2))),
        Rx::Not(x) => Rx::Not(Box::new(shrink_weight(*x, max))),
        other => other,
    }
}

/// how a regex is handed to the engine
#[derive(Clone, Debug, Serialize, Deserialize, PartialEq, Eq, Hash)]
pub enum Render {
    /// `TopLevelGrammar::from_regex`
    FromRegex,
    /// `start: /.../`
    LarkSlash,
    /// Lark terminal expressions, coarse (`/.../` wherever possible)
    LarkCoarse,
    /// Lark terminal expressions all the way down
    LarkFine,
}

pub fn render(rx: &Rx, r: &Render) -> Option<crate::engine::GrammarSpec> {
    use crate::engine::GrammarSpec;
    match r {
        Render::FromRegex => rx.to_regex().map(GrammarSpec::Regex),
        Render::LarkSlash => rx.to_regex().map(|s| GrammarSpec::Lark(format!("start: /{}/\n", s))),
        Render::LarkCoarse => {
            if rx.lark_ok() {
                Some(GrammarSpec::Lark(rx.to_lark_grammar(false)))
            } else {
                None
            }
        }
        Render::LarkFine => {
            if rx.lark_ok() {
                Some(GrammarSpec::Lark(rx.to_lark_grammar(true)))
            } else {
                None
            }
        }
    }
}

/// picks a render applicable to this regex
pub fn pick_render(rx: &Rx, sel: u8) -> (Render, crate::engine::GrammarSpec) {
    let order = [Render::FromRegex, Render::LarkSlash, Render::LarkCoarse, Render::LarkFine];
    for k in 0..4 {
        let r = &order[(sel as usize + k) % 4];
        if let Some(g) = render(rx, r) {
            return (r.clone(), g);
        }
    }
    // cannot happen: LarkFine only fails for {m,0} which the generator never emits
    (Render::LarkFine, crate::engine::GrammarSpec::Lark(rx.to_lark_grammar(true)))
}

#[cfg(test)]
mod tests {
    use super::*;

    #[test]
    fn utf8_class_boundaries() {
        // every boundary code point against char::encode_utf8
        let pts: Vec<u32> = vec![
            0, 9, 10, 11, 0x7E, 0x7F, 0x80, 0x81, 0x7FE, 0x7FF, 0x800, 0x801, 0xFFF, 0x1000, 0xD7FF, 0xE000, 0xFFFD,
            0xFFFF, 0x10000, 0x10001, 0x3FFFF, 0x40000, 0xFFFFF, 0x100000, 0x10FFFE, 0x10FFFF, 0xE9, 0x20AC, 0x1F600,
        ];
        let sets: Vec<Vec<(u32, u32)>> = vec![
            vec![(0, 0x10FFFF)],
            vec![(0x80, 0x7FF)],
            vec![(0x7FF, 0x800)],
            vec![(0xFFFF, 0x10000)],
            vec![(0xD7FF, 0xE000)],
            vec![(0xE9, 0x20AC)],
            vec![(0x20AC, 0x1F600)],
            complement_ranges(&[(0x61, 0x61)]),
            complement_ranges(&[(0xE9, 0xE9), (0x1F600, 0x1F600)]),
        ];
        for set in sets {
            let mut nfa = Nfa::default();
            let s = nfa.new_state();
            let e = nfa.new_state();
            class_nfa(&mut nfa, &set, s, e);
            let d = Dfa::from_nfa(&nfa, s, e).unwrap();
            let set_n = norm_ranges(set.clone());
            for &p in &pts {
                if let Some(c) = char::from_u32(p) {
                    let mut b = [0u8; 4];
                    let enc = c.encode_utf8(&mut b).as_bytes().to_vec();
                    let want = set_n.iter().any(|&(a, z)| a <= p && p <= z);
                    assert_eq!(d.accepts(&enc), want, "cp {:x} set {:?}", p, set_n);
                }
            }
            // invalid encodings never accepted
            for bad in [&[0xC0u8, 0x80][..], &[0xED, 0xA0, 0x80], &[0xF4, 0x90, 0x80, 0x80], &[0x80], &[0xE2, 0x82], &[0xFF]] {
                assert!(!d.accepts(bad));
            }
        }
    }

    #[test]
    fn against_regex_crate() {
        use proptest::test_runner::{Config, RngSeed, TestRunner};
        let mut runner = TestRunner::new(Config {
            cases: 300,
            failure_persistence: None,
            rng_seed: RngSeed::Fixed(7),
            ..Config::default()
        });
        let strat = (
            rx_strategy(RxOpts { and_not: false, substr: false, depth: 3, max_weight: 80 }),
            proptest::collection::vec(proptest::collection::vec(alpha_char(), 0..6), 20),
        );
        runner
            .run(&strat, |(rx, strs)| {
                let re = regex::bytes::Regex::new(&format!("^(?:{})$", rx.to_regex().unwrap())).unwrap();
                let d = match Dfa::from_rx(&rx) {
                    Ok(d) => d,
                    Err(_) => return Ok(()),
                };
                for s in strs {
                    let s: String = s.into_iter().collect();
                    // note: `$` in multi-line off mode matches only at end
                    prop_assert_eq!(d.accepts(s.as_bytes()), re.is_match(s.as_bytes()), "rx {:?} on {:?}", rx.to_regex(), s);
                }
                Ok(())
            })
            .unwrap();
    }
}

#[cfg(test)]
mod tests2 {
    use super::*;
    #[test]
    fn not_dot() {
        let d = Dfa::from_rx(&Rx::Dot).unwrap();
        assert!(d.accepts(b"a"));
        assert!(!d.accepts(b"ab"));
        let d = Dfa::from_rx(&Rx::Not(Box::new(Rx::Dot))).unwrap();
        assert!(d.accepts(b""));
        assert!(d.accepts(b"ab"));
        assert!(!d.accepts(b"a"));
    }
}
