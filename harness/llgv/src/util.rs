//! Small helpers: byte strings with readable serde, hashing, base64.

use serde::{Deserialize, Deserializer, Serialize, Serializer};
use std::fmt;

/// A byte string which serialises as an escaped ASCII string (`ab\xC3\xA9`).
#[derive(Clone, PartialEq, Eq, Hash, PartialOrd, Ord, Default)]
pub struct B(pub Vec<u8>);

pub fn esc(b: &[u8]) -> String {
    let mut s = String::new();
    for &c in b {
        if c == b'\\' {
            s.push_str("\\\\");
        } else if (0x20..0x7f).contains(&c) {
            s.push(c as char);
        } else {
            s.push_str(&format!("\\x{:02X}", c));
        }
    }
    s
}

pub fn unesc(s: &str) -> Result<Vec<u8>, String> {
    let b = s.as_bytes();
    let mut r = Vec::new();
    let mut i = 0;
    while i < b.len() {
        if b[i] == b'\\' {
            if i + 1 < b.len() && b[i + 1] == b'\\' {
                r.push(b'\\');
                i += 2;
            } else if i + 3 < b.len() && b[i + 1] == b'x' {
                let h = std::str::from_utf8(&b[i + 2..i + 4]).map_err(|e| e.to_string())?;
                r.push(u8::from_str_radix(h, 16).map_err(|e| e.to_string())?);
                i += 4;
            } else {
                return Err(format!("bad escape at {} in {:?}", i, s));
            }
        } else {
            r.push(b[i]);
            i += 1;
        }
    }
    Ok(r)
}

impl fmt::Debug for B {
    fn fmt(&self, f: &mut fmt::Formatter<'_>) -> fmt::Result {
        write!(f, "b\"{}\"", esc(&self.0))
    }
}

impl Serialize for B {
    fn serialize<S: Serializer>(&self, s: S) -> Result<S::Ok, S::Error> {
        s.serialize_str(&esc(&self.0))
    }
}

impl<'de> Deserialize<'de> for B {
    fn deserialize<D: Deserializer<'de>>(d: D) -> Result<Self, D::Error> {
        let s = String::deserialize(d)?;
        unesc(&s).map(B).map_err(serde::de::Error::custom)
    }
}

impl From<&[u8]> for B {
    fn from(v: &[u8]) -> Self {
        B(v.to_vec())
    }
}
impl From<&str> for B {
    fn from(v: &str) -> Self {
        B(v.as_bytes().to_vec())
    }
}

/// FNV-1a 64 — deterministic across runs and platforms (std's DefaultHasher is not
/// guaranteed stable; we only need stability within one binary but keep it simple).
#[derive(Clone, Copy)]
pub struct Fnv(pub u64);
impl Default for Fnv {
    fn default() -> Self {
        Fnv(0xcbf29ce484222325)
    }
}
impl Fnv {
    pub fn new() -> Self {
        Self::default()
    }
    pub fn bytes(mut self, b: &[u8]) -> Self {
        for &c in b {
            self.0 ^= c as u64;
            self.0 = self.0.wrapping_mul(0x100000001b3);
        }
        // separator
        self.0 ^= 0xff;
        self.0 = self.0.wrapping_mul(0x100000001b3);
        self
    }
    pub fn str(self, s: &str) -> Self {
        self.bytes(s.as_bytes())
    }
    pub fn u64(self, v: u64) -> Self {
        self.bytes(&v.to_le_bytes())
    }
    pub fn finish(self) -> u64 {
        self.0
    }
}

pub fn h_str(s: &str) -> u64 {
    Fnv::new().str(s).finish()
}

pub fn b64_decode(s: &str) -> Option<Vec<u8>> {
    fn val(c: u8) -> Option<u32> {
        Some(match c {
            b'A'..=b'Z' => (c - b'A') as u32,
            b'a'..=b'z' => (c - b'a') as u32 + 26,
            b'0'..=b'9' => (c - b'0') as u32 + 52,
            b'+' => 62,
            b'/' => 63,
            _ => return None,
        })
    }
    let mut out = Vec::new();
    let mut acc = 0u32;
    let mut bits = 0;
    for &c in s.as_bytes() {
        if c == b'=' {
            break;
        }
        acc = (acc << 6) | val(c)?;
        bits += 6;
        if bits >= 8 {
            bits -= 8;
            out.push((acc >> bits) as u8);
            acc &= (1 << bits) - 1;
        }
    }
    Some(out)
}

/// Monotone map of an abstract fraction onto an index `0..len`.
#[inline]
pub fn frac(i: u16, len: usize) -> usize {
    debug_assert!(len > 0);
    ((i as usize) * len) >> 16
}

pub fn verif_root() -> std::path::PathBuf {
    std::env::var("VERIF_ROOT")
        .map(std::path::PathBuf::from)
        .unwrap_or_else(|_| std::path::PathBuf::from("/verif"))
}

pub fn truncate_str(s: &str, n: usize) -> String {
    if s.len() <= n {
        s.to_string()
    } else {
        let mut e = n;
        while !s.is_char_boundary(e) {
            e -= 1;
        }
        format!("{}…(+{} bytes)", &s[..e], s.len() - e)
    }
}
