//! Vocabularies built by the harness itself (no network, no model files).

use crate::util::{b64_decode, verif_root, B};
use anyhow::{anyhow, Result};
use serde::{Deserialize, Serialize};
use std::sync::{Arc, OnceLock};
use toktrie::{TokEnv, TokRxInfo, TokTrie, TokenId, TokenizerEnv};

#[derive(Clone, Debug, Serialize, Deserialize, PartialEq, Eq, Hash)]
pub enum Base {
    /// no base tokens (C16 only)
    None,
    /// 256 single-byte tokens, id == byte value
    Byte,
    /// first `n` ranks of cl100k_base (n >= 256 => byte complete)
    Bpe(usize),
}

/// Serializable description of a vocabulary.  Layout of ids:
/// `[base tokens][extra][specials (0xFF + name)][padding placeholders]`.
#[derive(Clone, Debug, Serialize, Deserialize, PartialEq, Eq, Hash)]
pub struct VocabSpec {
    pub base: Base,
    pub extra: Vec<B>,
    /// Special token names *without* the marker byte; the first `n_eos` are EOS tokens.
    pub specials: Vec<String>,
    pub n_eos: usize,
    /// pad with placeholder specials `\xFF<[i]>` up to this size (0 = no padding)
    pub pad_to: usize,
    /// does the tokenizer claim canonical tokenisation (enables forced tokens)
    pub canonical: bool,
}

impl VocabSpec {
    pub fn byte() -> Self {
        VocabSpec {
            base: Base::Byte,
            extra: vec![],
            specials: vec!["<|eos|>".into()],
            n_eos: 1,
            pad_to: 0,
            canonical: false,
        }
    }
    pub fn byte_with(extra: Vec<B>) -> Self {
        VocabSpec {
            extra,
            ..Self::byte()
        }
    }
    pub fn bpe(n: usize, canonical: bool) -> Self {
        VocabSpec {
            base: Base::Bpe(n),
            extra: vec![],
            specials: vec!["<|eos|>".into()],
            n_eos: 1,
            pad_to: 0,
            canonical,
        }
    }
    pub fn build(&self) -> Result<Vocab> {
        Vocab::build(self)
    }
}

pub struct GreedyEnv {
    trie: TokTrie,
    canonical: bool,
}

impl TokenizerEnv for GreedyEnv {
    fn tok_trie(&self) -> &TokTrie {
        &self.trie
    }
    fn tokenize_bytes(&self, s: &[u8]) -> Vec<TokenId> {
        self.trie.greedy_tokenize(s)
    }
    fn tokenize_is_canonical(&self) -> bool {
        self.canonical
    }
}

pub struct Vocab {
    pub spec: VocabSpec,
    pub tokens: Vec<Vec<u8>>,
    pub eos: Vec<u32>,
    pub special_ids: Vec<u32>,
    pub env: TokEnv,
    /// ids of tokens which are neither special nor empty
    pub regular_ids: Vec<u32>,
}

fn cl100k() -> &'static Vec<Vec<u8>> {
    static C: OnceLock<Vec<Vec<u8>>> = OnceLock::new();
    C.get_or_init(|| {
        let p = verif_root().join("corpus/bpe/cl100k_first8k.tiktoken");
        let s = std::fs::read_to_string(&p).unwrap_or_else(|e| panic!("{}: {}", p.display(), e));
        let mut v = Vec::new();
        for (i, l) in s.lines().enumerate() {
            let mut it = l.split(' ');
            let tok = b64_decode(it.next().unwrap()).unwrap();
            let rank: usize = it.next().unwrap().parse().unwrap();
            assert_eq!(rank, i);
            v.push(tok);
        }
        v
    })
}

pub const CL100K_PAT: &str = "(?i:'s|'t|'re|'ve|'m|'ll|'d)|[^\\r\\n\\p{L}\\p{N}]?\\p{L}+|\\p{N}{1,3}| ?[^\\s\\p{L}\\p{N}]+[\\r\\n]*|\\s*[\\r\\n]+|\\s+(?!\\S)|\\s+";

impl Vocab {
    pub fn build(spec: &VocabSpec) -> Result<Vocab> {
        let mut tokens: Vec<Vec<u8>> = match &spec.base {
            Base::None => vec![],
            Base::Byte => (0..=255u8).map(|b| vec![b]).collect(),
            Base::Bpe(n) => {
                let c = cl100k();
                if *n > c.len() || *n < 256 {
                    return Err(anyhow!("bpe size {} out of range", n));
                }
                c[..*n].to_vec()
            }
        };
        let n_base = tokens.len();
        for e in &spec.extra {
            tokens.push(e.0.clone());
        }
        let first_special = tokens.len();
        for s in &spec.specials {
            let mut t = vec![0xFFu8];
            t.extend_from_slice(s.as_bytes());
            tokens.push(t);
        }
        while tokens.len() < spec.pad_to {
            let i = tokens.len();
            let mut t = vec![0xFFu8];
            t.extend_from_slice(format!("<[{}]>", i).as_bytes());
            tokens.push(t);
        }
        if spec.n_eos == 0 || spec.n_eos > spec.specials.len() {
            return Err(anyhow!("need at least one EOS special"));
        }
        let eos: Vec<u32> = (0..spec.n_eos).map(|i| (first_special + i) as u32).collect();
        let n_vocab = tokens.len();

        let use_tiktoken =
            matches!(spec.base, Base::Bpe(_)) && spec.canonical && spec.extra.is_empty();
        let env: TokEnv = if use_tiktoken {
            let encoder: Vec<(Vec<u8>, u32)> = tokens[..n_base]
                .iter()
                .enumerate()
                .map(|(i, t)| (t.clone(), i as u32))
                .collect();
            let specials: Vec<(String, u32)> = spec
                .specials
                .iter()
                .enumerate()
                .map(|(i, s)| (s.clone(), (first_special + i) as u32))
                .collect();
            let mut t = toktrie_tiktoken::TikTokenBPE::new(
                encoder,
                specials,
                CL100K_PAT,
                Some(n_vocab),
                eos[0],
            )?;
            if eos.len() > 1 {
                t.set_eos_tokens(&eos);
            }
            // TikTokenBPE names padding as \xFF<[i]> itself: same as ours.
            t.to_env()
        } else {
            let info = TokRxInfo::new(n_vocab as u32, eos[0]);
            let mut trie = TokTrie::from(&info, &tokens);
            if eos.len() > 1 {
                trie = trie.with_eos_tokens(&eos);
            }
            Arc::new(GreedyEnv {
                trie,
                canonical: spec.canonical,
            })
        };
        // use the trie's own view of the tokens from here on
        let trie = env.tok_trie();
        let tokens: Vec<Vec<u8>> = (0..n_vocab as u32).map(|i| trie.token(i).to_vec()).collect();
        let special_ids: Vec<u32> = (0..n_vocab as u32)
            .filter(|&i| tokens[i as usize].first() == Some(&0xFF) && tokens[i as usize].len() > 1)
            .collect();
        let regular_ids: Vec<u32> = (0..n_vocab as u32)
            .filter(|&i| {
                let t = &tokens[i as usize];
                !t.is_empty() && t[0] != 0xFF
            })
            .collect();
        Ok(Vocab {
            spec: spec.clone(),
            tokens,
            eos,
            special_ids,
            env,
            regular_ids,
        })
    }

    pub fn len(&self) -> usize {
        self.tokens.len()
    }
    pub fn is_empty(&self) -> bool {
        self.tokens.is_empty()
    }
    pub fn trie(&self) -> &TokTrie {
        self.env.tok_trie()
    }
    pub fn is_eos(&self, t: u32) -> bool {
        self.eos.contains(&t)
    }
    pub fn is_special(&self, t: u32) -> bool {
        let b = &self.tokens[t as usize];
        !b.is_empty() && b[0] == 0xFF && b.len() > 1
    }
    /// a "text" token: non-empty and not starting with the marker byte
    pub fn is_regular(&self, t: u32) -> bool {
        let b = &self.tokens[t as usize];
        !b.is_empty() && b[0] != 0xFF
    }
    pub fn bytes(&self, t: u32) -> &[u8] {
        &self.tokens[t as usize]
    }
    pub fn decode(&self, toks: &[u32]) -> Vec<u8> {
        let mut r = Vec::new();
        for &t in toks {
            if self.is_regular(t) {
                r.extend_from_slice(self.bytes(t));
            }
        }
        r
    }
}
