//! Mask walks and derived vocabularies.

use crate::engine::{factory, matcher, GrammarSpec};
use crate::util::{frac, B};
use crate::vocab::{Vocab, VocabSpec};
use llguidance::Matcher;
use proptest::prelude::*;
use serde::{Deserialize, Serialize};
use std::sync::{Arc, OnceLock};

pub fn byte_vocab() -> Arc<Vocab> {
    static V: OnceLock<Arc<Vocab>> = OnceLock::new();
    V.get_or_init(|| Arc::new(VocabSpec::byte().build().unwrap())).clone()
}

/// One step of a mask walk.
#[derive(Clone, Debug, Serialize, Deserialize, PartialEq)]
pub struct Step {
    /// which allowed token (monotone fraction)
    pub pick: u16,
    /// prefer multi-byte tokens when any is allowed
    pub multi: bool,
    /// commit EOS if the state is accepting
    pub eos: bool,
}

pub fn step_strategy() -> impl Strategy<Value = Step> {
    (any::<u16>(), proptest::bool::weighted(0.6), proptest::bool::weighted(0.07))
        .prop_map(|(pick, multi, eos)| Step { pick, multi, eos })
}

pub fn steps(max: usize) -> impl Strategy<Value = Vec<Step>> {
    proptest::collection::vec(step_strategy(), 1..=max)
}

/// list of allowed token ids
pub fn mask_ids(mask: &llguidance::toktrie::SimpleVob, n_vocab: usize) -> Vec<u32> {
    let mut r = Vec::new();
    mask.iter_set_entries(|i| {
        if i < n_vocab {
            r.push(i as u32)
        }
    });
    r
}

/// choose the token for a step among the allowed ones; `None` if nothing but EOS is allowed
pub fn choose(allowed: &[u32], vocab: &Vocab, st: &Step, accepting: bool) -> Option<u32> {
    if st.eos && accepting {
        if let Some(&e) = allowed.iter().find(|t| vocab.is_eos(**t)) {
            return Some(e);
        }
    }
    let non_eos: Vec<u32> = allowed.iter().cloned().filter(|t| !vocab.is_eos(*t)).collect();
    if non_eos.is_empty() {
        return allowed.first().cloned();
    }
    if st.multi {
        let multi: Vec<u32> = non_eos.iter().cloned().filter(|&t| vocab.bytes(t).len() > 1).collect();
        if !multi.is_empty() {
            return Some(multi[frac(st.pick, multi.len())]);
        }
    }
    Some(non_eos[frac(st.pick, non_eos.len())])
}

/// Byte-level sample of a string the engine admits (possibly incomplete), used only to cut
/// vocabulary entries that straddle lexeme boundaries.  Deterministic in (grammar, seeds).
pub fn sample_bytes(g: &GrammarSpec, seeds: &[u16], max_len: usize) -> Vec<u8> {
    let v = byte_vocab();
    let f = factory(&v);
    let mut m: Matcher = matcher(&f, g);
    let mut out = Vec::new();
    if m.is_error() {
        return out;
    }
    for i in 0..max_len {
        if m.is_stopped() {
            break;
        }
        let mask = match m.compute_mask() {
            Ok(x) => x,
            Err(_) => break,
        };
        let mut ids = mask_ids(&mask, v.len());
        ids.retain(|&t| t < 255);
        if ids.is_empty() {
            break;
        }
        let s = seeds[i % seeds.len().max(1)];
        // rotate with position so that short seed lists do not cycle trivially
        let k = frac(s.wrapping_add((i as u16).wrapping_mul(7919)), ids.len());
        let t = ids[k];
        if m.consume_token(t).is_err() {
            break;
        }
        out.push(t as u8);
    }
    out
}

/// `V_syn(grammar)`: the byte vocabulary plus tokens cut from strings the grammar produces,
/// plus generic troublemakers (partial UTF-8, duplicates, prefixes/extensions, long tokens,
/// whitespace runs), plus specials whose names look like text.
pub fn syn_vocab_strategy(g: GrammarSpec, canonical: bool) -> BoxedStrategy<VocabSpec> {
    let seeds = proptest::collection::vec(any::<u16>(), 4..12);
    let cuts = proptest::collection::vec((any::<u16>(), 1usize..7), 10..60);
    let generic = proptest::collection::vec(
        prop_oneof![
            3 => proptest::collection::vec(prop_oneof![
                Just(b'a'), Just(b'b'), Just(b'c'), Just(b'0'), Just(b'1'), Just(b' '), Just(b'\n'), Just(b'-'),
                Just(b'"'), Just(b','), Just(b':'), Just(b'{'), Just(b'}'), Just(b'['), Just(b']'), Just(b'.'), Just(b'e'), Just(b't'), Just(b'\\'),
                Just(0xC3u8), Just(0xA9u8), Just(0xE2u8), Just(0x82u8), Just(0xACu8), Just(0xF0u8), Just(0x9Fu8), Just(0x98u8), Just(0x80u8)
            ], 2..6),
            1 => Just("  ".as_bytes().to_vec()),
            1 => Just("\n\n".as_bytes().to_vec()),
            1 => Just(" \n ".as_bytes().to_vec()),
            1 => Just("é".as_bytes().to_vec()),
            1 => Just("€".as_bytes()[..2].to_vec()),
            1 => Just("😀".as_bytes()[..3].to_vec()),
            1 => Just("😀".as_bytes()[1..].to_vec()),
            1 => Just("<|tool|>".as_bytes().to_vec()),
            1 => Just("<|eos|>".as_bytes().to_vec()),
            1 => Just(vec![]),
        ],
        0..20,
    );
    let pad = prop_oneof![
        4 => Just(0usize),
        1 => Just(288usize), 1 => Just(289usize), 1 => Just(319usize), 1 => Just(320usize), 1 => Just(321usize), 1 => Just(352usize), 1 => Just(353usize)
    ];
    (seeds, cuts, generic, pad, 1usize..=2, any::<bool>())
        .prop_map(move |(seeds, cuts, generic, pad, n_eos, tool)| {
            let mut extra: Vec<B> = Vec::new();
            let mut samples: Vec<Vec<u8>> = Vec::new();
            for k in 0..3 {
                let s: Vec<u16> = seeds.iter().map(|x| x.wrapping_mul(k * 2 + 1).wrapping_add(k * 977)).collect();
                let b = sample_bytes(&g, &s, 48);
                if b.len() >= 2 {
                    samples.push(b);
                }
            }
            if !samples.is_empty() {
                for (i, (pos, len)) in cuts.iter().enumerate() {
                    let s = &samples[i % samples.len()];
                    let start = frac(*pos, s.len());
                    let end = (start + len + 1).min(s.len());
                    if end - start >= 2 {
                        extra.push(B(s[start..end].to_vec()));
                    }
                }
            }
            // long token
            if let Some(s) = samples.first() {
                if s.len() > 12 {
                    extra.push(B(s[..s.len().min(40)].to_vec()));
                }
            }
            // duplicates and extensions of existing tokens
            let n0 = extra.len();
            for i in 0..n0.min(6) {
                let t = extra[(i * 5) % n0].clone();
                if i % 2 == 0 {
                    extra.push(t);
                } else {
                    let mut t2 = t.0.clone();
                    t2.push(b'a');
                    extra.push(B(t2));
                }
            }
            for g in generic {
                extra.push(B(g));
            }
            // the marker byte must never start a regular token other than the bare marker
            extra.retain(|t| t.0.first() != Some(&0xFF));
            let mut specials: Vec<String> = vec!["<|eos|>".into()];
            if n_eos == 2 {
                specials.push("<|eot|>".into());
            }
            if tool {
                specials.push("<|tool|>".into());
                specials.push("<a>".into());
            }
            VocabSpec {
                base: crate::vocab::Base::Byte,
                extra,
                specials,
                n_eos,
                pad_to: pad,
                canonical,
            }
        })
        .boxed()
}
