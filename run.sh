#!/bin/bash
# ./run.sh <Cxx> quick|thorough|replay [file]     (cwd = /verif)
# exit 0: property held on everything explored; 1: VIOLATION line printed; 2: infrastructure problem
cd "$(dirname "$0")" || exit 2
export VERIF_ROOT="$(pwd)"
export CARGO_NET_OFFLINE=true
export CARGO_TARGET_DIR="$VERIF_ROOT/harness/target"
if ! ( cd harness && cargo build --profile verif -q -p llgv --bin check ) >&2; then
  echo "build failed" >&2
  exit 2
fi
if [ "$1" = "C20" ]; then
  # C20 additionally needs the same binary with debug assertions and overflow checks
  if ! ( cd harness && cargo build --profile verifchk -q -p llgv --bin check ) >&2; then
    echo "build (verifchk) failed" >&2
    exit 2
  fi
fi
"$CARGO_TARGET_DIR/verif/check" "$@"
rc=$?
if [ $rc -ne 0 ] && [ $rc -ne 1 ]; then
  echo "check exited with $rc (infrastructure problem, not a property result)" >&2
  exit 2
fi
exit $rc
