#!/bin/bash
# ./run.sh <Cxx> quick|thorough|replay [file]     (cwd = /verif)
# exit 0: property held on everything explored; 1: VIOLATION line printed; 2: infrastructure problem
cd "$(dirname "$0")" || exit 2
export VERIF_ROOT="$(pwd)"
export CARGO_NET_OFFLINE=true
export CARGO_TARGET_DIR="$VERIF_ROOT/harness/target"
if ! ( cd harness && cargo build --profile verif -q -p llgv --bin check ) >&2; then
  echo "build failed" >&2
  exit 2
fi
if [ "$1" = "C20" ]; then
  # C20 additionally needs the same binary with debug assertions and overflow checks
  if ! ( cd harness && cargo build --profile verifchk -q -p llgv --bin check ) >&2; then
    echo "build (verifchk) failed" >&2
    exit 2
  fi
fi
# a libFuzzer artifact (not JSON) is replayed through the fuzz target
if [ "$2" = "replay" ] && [ -n "$3" ] && ! head -c1 "$3" | grep -q '{' && echo "$3" | grep -q "fuzz-artifacts"; then
  t=fuzz_grammar; [ "$1" = "C16" ] && t=fuzz_toktrie
  out=$(cd harness/fuzz && CARGO_NET_OFFLINE=true CARGO_TARGET_DIR="$VERIF_ROOT/harness/target/fuzz" cargo +nightly fuzz run $t "$3" 2>&1); frc=$?
  if [ $frc -ne 0 ]; then echo "VIOLATION property=$1 replay=$3"; echo "$out" | grep -m3 -E "panicked|AddressSanitizer|assertion" | cut -c1-400; exit 1; fi
  echo "[$1] artifact replays clean"; exit 0
fi
# the output is also kept: if the process dies after it has reported a violation (a faulty engine can exhaust
# memory while a failing case is being shrunk) the report stands
mkdir -p "$CARGO_TARGET_DIR/run-logs"
log="$CARGO_TARGET_DIR/run-logs/$1-$2-$$.log"
"$CARGO_TARGET_DIR/verif/check" "$@" | tee "$log"
rc=${PIPESTATUS[0]}
if [ $rc -ne 0 ] && [ $rc -ne 1 ] && grep -q "^VIOLATION property=$1 " "$log"; then
  echo "check exited with $rc after reporting a violation" >&2
  rc=1
fi
rm -f "$log"
if [ $rc -eq 0 ] && [ "$2" = "thorough" ]; then
  if [ "$1" = "C20" ]; then tools/fuzz_tier.sh C20 fuzz_grammar 25000 1500; rc=$?; fi
  if [ "$1" = "C16" ]; then tools/fuzz_tier.sh C16 fuzz_toktrie 400000 600; rc=$?; fi
fi
if [ $rc -ne 0 ] && [ $rc -ne 1 ]; then
  echo "check exited with $rc (infrastructure problem, not a property result)" >&2
  exit 2
fi
exit $rc
