#!/bin/bash
# tools/all_mutants.sh : run every seeded change under /verif/seeded against the quick check of the property it was
# written for (one after the other; applies each patch to /repo and reverts it). Prints "<id> <Cxx> caught|missed|infra".
cd /verif || exit 2
for d in seeded/*/; do
  id=$(basename $d)
  prop=$(python3 -c "import json;print(json.load(open('$d/meta.json'))['property'])")
  if ! git -C /repo apply --check $PWD/$d/patch.diff 2>/dev/null; then echo "$id $prop patch-does-not-apply"; continue; fi
  r=$(tools/try_mutant.sh $PWD/$d/patch.diff $prop 2>&1 | head -1 | cut -c1-160)
  echo "$id $r"
done
