#!/usr/bin/env python3
"""Runs the repository test suite offline (guard off) and checks that every test in
BASELINE.json's stable_pass still passes.  exit 0 iff all of them pass."""
import json, re, subprocess, sys
b = json.load(open('/root/.vp/BASELINE.json'))
want = set(b['stable_pass'])
p = subprocess.run("cd /repo && cargo test --workspace --no-fail-fast --offline 2>&1", shell=True, capture_output=True, text=True)
cur = None
passed = set()
for line in p.stdout.splitlines():
    m = re.match(r'\s+Running (unittests )?(\S+) \((\S+)\)', line)
    if m:
        path, exe = m.group(2), m.group(3)
        crate = re.sub(r'-[0-9a-f]{16}$', '', exe.split('/')[-1])
        if m.group(1):
            cur = crate.replace('-', '_')
        else:
            # integration test: <package>::<test file stem>; package from the directory
            stem = path.split('/')[-1].rsplit('.', 1)[0]
            cur = None
            for w in want:
                parts = w.split('::')
                if parts[1] == stem:
                    cur = parts[0] + '::' + stem
                    break
        continue
    m = re.match(r'test (\S+)( - should panic)? \.\.\. ok', line)
    if m and cur:
        passed.add(cur + '::' + m.group(1))
missing = sorted(want - passed)
print(f"stable_pass: {len(want)}; passing now: {len(want & passed)}")
for x in missing[:30]:
    print("NOT PASSING:", x)
sys.exit(1 if missing else 0)
