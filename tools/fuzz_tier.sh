#!/bin/bash
# tools/fuzz_tier.sh <property> <target> <runs-per-job> <max_len>
# Coverage-guided tier (libFuzzer + ASan via cargo-fuzz, nightly).  Exit 0 clean, 1 crash (prints a
# VIOLATION line with the artifact as replay file), 2 infrastructure problem.
prop="$1"; target="$2"; runs="$3"; maxlen="$4"
root="${VERIF_ROOT:-/verif}"
seed="${VERIF_SEED:-0}"; [ "$seed" = "0" ] && seed=1
tdir="$root/harness/target/fuzz"
corpus="$tdir/corpus_${target}_$$"
art="$root/replays/$prop/fuzz-artifacts/"
mkdir -p "$corpus" "$art"
python3 - "$corpus" "$target" <<'PY'
import sys
d, target = sys.argv[1], sys.argv[2]
if target == "fuzz_grammar":
    seeds=[(0,b'start: "a" b? c*\nb: /[0-9]+/\nc: "(" start ")"\n'),
     (0,b'start: perm::0x0\nperm::_: "" %if is_ones([0:2]) | "a" perm::set_bit(0) %if bit_clear(0) | "b" perm::set_bit(1) %if bit_clear(1)\n'),
     (0,b'%ignore / +/\nstart: A B\nA: /[a-z]+/ & ~/if/\nB[lazy]: /.*;/\n'),
     (0,b'start: x{2,5} <[0-3]> %json {"type":"integer"}\nx: "a" | "bc"\n'),
     (1,b'{"type":"object","properties":{"a":{"type":"integer","minimum":3,"multipleOf":2},"b":{"enum":["x",1,null]}},"required":["a"],"additionalProperties":false}'),
     (1,b'{"$defs":{"n":{"anyOf":[{"type":"null"},{"type":"array","items":{"$ref":"#/$defs/n"},"maxItems":2}]}},"$ref":"#/$defs/n"}'),
     (1,b'{"type":"string","pattern":"^[a-c]{2,4}$","maxLength":3}'),
     (1,b'{"allOf":[{"type":"number","minimum":0.5},{"maximum":99.25,"multipleOf":0.25}]}'),
     (2,b'(0|[1-9][0-9]*)(\\.[0-9]+)?'),(2,b'[a-z]+@[a-z]+\\.(com|org)')]
    for i,(k,t) in enumerate(seeds):
        for tight in (0,1):
            open(f'{d}/seed{i}_{tight}','wb').write(bytes([k,tight,6])+t+bytes([0,1,2,3,0,5,3,9,4,1,0,7]))
else:
    import random
    r=random.Random(7)
    for i in range(8):
        open(f'{d}/seed{i}','wb').write(bytes(r.randrange(256) for _ in range(60+40*i)))
PY
cd "$root/harness/fuzz" || exit 2
log="$tdir/${target}_$$.log"
CARGO_NET_OFFLINE=true CARGO_TARGET_DIR="$tdir" cargo +nightly fuzz run "$target" "$corpus" -- \
  -runs="$runs" -seed="$seed" -max_len="$maxlen" -len_control=0 -timeout=30 -rss_limit_mb=6000 \
  -jobs=8 -workers=8 -artifact_prefix="$art" > "$log" 2>&1
rc=$?
execs=$(cat "$corpus"/../fuzz-*.log 2>/dev/null | grep -c "^#" ); 
done_runs=$(grep -h "Done [0-9]* runs" fuzz-*.log 2>/dev/null | awk '{s+=$2} END{print s+0}')
ncorp=$(ls "$corpus" | wc -l)
crash=$(ls -t "$art" 2>/dev/null | grep -E "^(crash|timeout|oom)-" | head -1)
new_crash=""
if [ -n "$crash" ] && [ "$art$crash" -nt "$log" -o $rc -ne 0 ]; then new_crash="$art$crash"; fi
rm -f fuzz-*.log
python3 - "$root/evidence/$prop.json" "$target" "$done_runs" "$ncorp" "$rc" <<'PY'
import json,sys
p,target,runs,ncorp,rc=sys.argv[1:]
try:
    e=json.load(open(p))
    e['coverage'].setdefault('fuzz_tier',[]).append({"target":target,"engine":"libFuzzer+ASan (cargo-fuzz, 8 jobs)","executions":int(runs),"corpus_files_at_end":int(ncorp),"exit_code":int(rc)})
    e['coverage']['evaluations']=int(e['coverage']['evaluations'])+int(runs)
    json.dump(e,open(p,'w'),indent=1)
except Exception as ex:
    print("fuzz tier: cannot update evidence:",ex,file=sys.stderr)
PY
rm -rf "$corpus"
if [ $rc -ne 0 ]; then
  if [ -n "$new_crash" ]; then
    case "$crash" in
      timeout-*|oom-*) echo "[$prop] fuzz tier: $crash (inconclusive by policy, not a violation)" >&2; rm -f "$log"; exit 0;;
    esac
    echo "VIOLATION property=$prop replay=$new_crash"
    grep -m3 -E "panicked|ERROR: AddressSanitizer|assertion" "$log" | cut -c1-400
    exit 1
  fi
  echo "fuzz tier failed without an artifact (rc=$rc); see $log" >&2
  tail -5 "$log" >&2
  exit 2
fi
rm -f "$log"
echo "[$prop] fuzz tier $target: $done_runs executions, clean"
exit 0
