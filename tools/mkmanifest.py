#!/usr/bin/env python3
"""Regenerates /verif/MANIFEST.json from the table below (single source of truth)."""
import json
CHECKS = {
 "C01": ("Generated (grammar, vocabulary, mask-walk) cases; at every visited state every token id is compared three ways (mask bit, validate_tokens, consume_token on a clone) plus validate-vs-commit on spliced token sequences; failures shrink to a replay file. Sampling, not proof: histories are random walks.",
         "trusts proptest, the harness vocabulary builder and Matcher::clone being a faithful copy (checked separately by C14)",
         "property-based testing: full-vocabulary differential (mask vs validate vs commit) over generated grammars, vocabularies and mask walks"),
 "C04": ("Generated regex ASTs (classes across UTF-8 length boundaries, &, ~, {m,n}, (?i), substring) rendered three ways; engine masks, accepting flags and complete-string verdicts are compared with an independent reference DFA (own Thompson/subset/product construction) on a BFS over the reference's states and on sampled members / one-edit neighbours.",
         "trusts the reference DFA (unit-tested against the regex crate on the &/~-free subset and against char::encode_utf8 on boundary code points); byte 0xFF excluded",
         "property-based testing: differential against an independent reference automaton"),
 "C05": ("Generated reduced CFGs (non-confusable terminals; recursion kinds, nullable chains, ambiguity, {m,n}) and parametric templates; all viable prefixes are enumerated breadth-first up to a node budget and every token's mask bit, the accepting flag, EOS and complete-string verdicts are compared with an independent fix-point Earley chart over bytes.",
         "trusts the reference chart recogniser and parameter evaluator (unit-tested on permutations, Dyck, bounded repetition)",
         "property-based testing: bounded-exhaustive differential against an independent reference recogniser"),
 "C02": ("Generated grammars with a multi-byte vocabulary (synthetic or truncated cl100k) run against a twin of the same grammar over the 256-byte vocabulary fed the same bytes: every regular token's mask bit must equal byte-by-byte admissibility on the twin, accepting flags must agree, and a random re-tokenisation of the whole history must be accepted by a fresh engine and leave bit-identical observables.",
         "relational oracle (the engine against itself under re-tokenisation); grammars with token references excluded",
         "property-based testing: metamorphic relation (token split invariance) over generated grammars/vocabularies/walks"),
 "C06": ("Generated schemas over the whole documented keyword set; complete outputs are collected from closer-biased mask walks (finished by a completion search) and from mutants of such outputs that the engine admits as complete (numbers off by one / re-spelt, type swaps, dropped / extra / duplicated / renamed / reordered members, keys re-spelt with escapes); each admitted output must be well-formed RFC 8259 JSON and validate under the reference validator, with the jsonschema crate as second opinion (formats need both to reject).",
         "reference validator is authoritative for structural/numeric keywords, disagreements with the crate are counted not reported; lenient / coerce_one_of never set",
         "property-based testing: generated outputs + mutational negative probing against an independent validator"),
 "C07": ("Schemas from the fully supported subset with instances generated from the schema by recursive descent (kept only if both validators accept), serialised compactly in schema key order and with the whitespace the schema's options allow, tokenised as bytes / greedily / by random segmentation, and fed to the engine: every token must be in the mask, the end state accepting, validate_tokens accepting everything.",
         "instances come from the harness generator (not from the engine); numbers restricted to plainly printed decimals",
         "property-based testing: completeness check with generated valid instances (round trip generator -> validator -> engine)"),
 "C08": ("Mostly exhaustive grid of integer/number schemas (all integer pairs in a window with rotating inclusive/exclusive flags, half-open, structured decimal bounds, powers of ten +-1 up to 1e15, 13 multipleOf values x windows) plus random bounds; for every schema a structured literal set (integers around, bound +-10^-k, digit-count neighbours, each in canonical and zero-padded spellings) is decided by exact integer arithmetic and compared with validate_tokens(text+EOS); satisfiability decides whether compilation must succeed.",
         "trusts the exact-arithmetic oracle (values scaled by 10^6 in i128); bounds that do not round-trip through f64 are skipped; 3.0 under integer schemas not asserted",
         "grid enumeration + property-based testing against an exact arithmetic reference"),
 "C09": ("Exhaustive grid over every 0<=m<=n<=N for 20 forms (rule / terminal / regex level repetition in all spellings, JSON items, lengths with 1/2/4-byte characters and escapes, properties) and every count 0..n+3: complete-string verdicts, prefix viability and boundary commits are compared with the arithmetic truth m<=k<=n; random larger bounds on top.",
         "the expected verdict is plain arithmetic; sample strings are constructed per form",
         "exhaustive grid enumeration (plus random larger bounds) against an arithmetic oracle"),
 "C10": ("Two engines built from the same grammar and vocabulary, one with token slices (default JSON slices or 1-4 generated slice regexes) and one without, walk the same history in lock-step; mask words are compared bit for bit at every state; states with and without applied slices are both counted.",
         "relational oracle (slices on/off); slice lists the factory rejects are skipped",
         "property-based testing: differential (optimisation on vs off) over generated grammars/vocabularies/slice lists/walks"),
 "C13": ("At every state of a mask walk with a canonical tokenizer (greedy synthetic or tiktoken BPE) the reported forced bytes are walked on a byte-level twin where each must be the only allowed token; ff tokens must decode to a prefix of the forced bytes, commit, and leave engine and twin in agreement; the same through Constraint with ff_tokens; process_prompt must conserve prompt text plus forced bytes.",
         "relational oracle (byte-level twin of the same grammar); grammars with token references excluded",
         "property-based testing: twin-engine differential for forcedness + round-trip identity for prompts"),
 "C14": ("Trees of clone()/deep_clone() engines execute generated interleavings of commits, masks, validations, rollbacks and forced-byte queries; every result must equal that of a private engine (own factory) with the same net history. All 20 interleavings of two 3-act scripts are enumerated per case; additionally 2-16 clones run on real OS threads behind a barrier against precomputed private results. llg_par_compute_mask is compared with sequential masks in the C17 harness.",
         "owned schedules at API-call granularity; OS-thread schedules are sampled, not controlled",
         "stateful property-based testing with owned schedules (exhaustive for short runs) + real-thread stress against a private-engine model"),
 "C16": ("Four generated case families: SimpleVob operation sequences at sizes around the 32-bit word boundaries against a BTreeSet model (every accessor, and no bit at/above the size); arbitrary vocabularies with a random byte-level DFA acceptor, start prefixes and filter masks against 'test every token separately' (token<->bytes, add_bias, has_valid_extensions, filter, prefix lookups, decode, greedy round trip); hand-built tokenizer.json descriptions (byte-level GPT-2 table + merges, byte-fallback with nested Sequence decoders, added special/non-special tokens) against a reference mapping through both the JSON reader and the HuggingFace adapter with text round trips incl. invalid UTF-8; tiktoken rank tables with holes and specials.",
         "operations are called within their documented preconditions; texts containing 0xFF, an added token's content or the space-replacement character are excluded",
         "model-based property testing (set model / naive per-token model / reference byte mappings)"),
 "C17": ("C objects (tokenizer, constraint, matcher) created through the extern \"C\" functions from the same token table are driven in lock-step with independently built Rust Constraint/Matcher twins: masks word for word, commit results, validate counts, rollback, ff tokens, flags and error agreement. llg_matcher_compute_mask_into and llg_par_compute_mask write into canary-guarded buffers of 0, 1, W-1, W, W+1, 2W and W+1000 words; a poisoning global allocator (0xA5 tail on every heap block, checked on free) makes out-of-bounds reads of the engine's mask visible and flags out-of-bounds writes.",
         "the C tokenizer uses the approximate greedy tokenizer; OOB reads beyond the 64-byte poisoned tail depend on heap contents",
         "property-based differential testing (C API vs Rust API) with guarded buffers and a poisoning allocator"),
 "C18": ("Random call sequences mixing legal and illegal calls against Matcher and Constraint (with/without ff_tokens) over generated regex grammars, judged by a {running, stopped, failed} model whose 'complete' / 'extensible' come from the reference DFA: stop exactly when the text is complete and not extensible or EOS was committed while accepting, every Ok result agrees with the reference, after stop only EOS set / zero / errors, failed matchers stay failed with the same message; StopController runs (stop tokens, overlapping multi-byte stop strings, stop regex, text cut at arbitrary byte positions, specials) against a reference scan: text up to a match start of the earliest-ending stop, prefix before, bounded withholding, nothing after.",
         "for the sampling loop only the immediate result of the first illegal call is judged; stop strings avoid regex metacharacters; any overlapping candidate is accepted",
         "stateful / model-based property testing (state machine model + reference DFA; reference scan for the stop controller)"),
 "C19": ("Vocabularies with special tokens and plain look-alike tokens; sequence templates mixing literals, a class containing < | >, and token references (<name>, <[id]>, ranges, negated ranges, <[*]>) with position tracking by the generator: at reference positions the mask must equal exactly the denoted id set (validate and commit agreeing), at text positions no special/marker/empty token may be allowed or accepted; tokenisation of names in text vs marked names is checked per vocabulary.",
         "reference sets are computed by the harness from the documented range semantics; EOS ids at text positions follow C01's accepting clause",
         "property-based testing with generator-side position tracking (validity predicate per state)"),
 "C03": ("Mask walks over non-empty regexes, reduced CFGs and JSON schemas (numeric ranges, multipleOf, length bounds, patterns, formats, allOf) with byte-complete vocabularies: every visited state must have a computable non-empty mask (or be accepting), stops must be NoExtension/EndOfSentence, and a finite completion must exist - exact for regexes (the reference DFA's shortest completion must be accepted), bounded best-first search otherwise (exhausted search = violation, exceeded budget = inconclusive).",
         "completion for CFG/JSON grammars is a bounded search; inconclusive searches are counted in the evidence",
         "property-based testing: invariant over visited states + reference-guided / bounded completion search"),
 "C15": ("The front-end grammar and its optimised form (public API: to_internal, optimize, to_string) are parsed from their dumps into the harness BNF and compared as prefix languages of terminal sequences by a lock-step walk of two independent reference charts (length <= 7, node budget); special symbols (captures, limits, sub-grammar links) become bracket pseudo-terminals and their reachable set must be unchanged.",
         "depends on the dump format of Grammar::to_string (unparsable dumps are skipped and counted; 0 so far); bounded length",
         "property-based testing: translation validation of the optimiser against a reference recogniser (bounded language equivalence)"),
 "C11": ("Generated histories of commits, rollbacks, resets and read-only queries on a live engine; at explicit check points every observable (mask words, accepting, forced bytes, stop status, validate results) is compared with a freshly built engine that replayed only the net tokens; mask twice / invalidate+mask are compared bitwise.",
         "the model is the engine itself on a fresh instance (relational oracle): it detects traces of earlier queries, not language errors",
         "stateful property-based testing (operation sequences + fresh-replay model)"),
 "C12": ("Same interpreter as C11 with histories weighted towards rollback(k) for all k, EOS commits, completion and reset; after any history the live engine must be indistinguishable (all observables and validate on continuations) from a fresh engine that saw only the net tokens.",
         "relational oracle (fresh replay); captures are not compared",
         "stateful property-based testing (operation sequences + fresh-replay model)"),
 "C20": ("Adversarial and mutated grammar texts, JSON schemas, regexes, slice lists and API walks (token ids anywhere in u32; tight and default limits) are executed in worker subprocesses (8 MB stack thread, 12 GB address space, watchdog) of two builds of the same code - the user profile and one with debug assertions and overflow checks: no worker may die by a signal, no panic may escape the API, failed engines stay failed, legal calls never fail with an internal panic, and the two transcripts must agree unless the checked build reports an arithmetic overflow / debug assertion (then the user build returned a result after an internal overflow).",
         "watchdog expiry and out-of-memory aborts are inconclusive by policy; the generator is a fixed family of adversarial shapes plus byte-level mutation (no coverage feedback)",
         "structured fuzzing in sandboxed subprocesses + differential testing between a checked and an unchecked build"),
}
REF = {k: "DESIGN.md §5 " + k for k in CHECKS}
ALL = [f"C{i:02d}" for i in range(1, 21)]
NA = {}
m = {"version": 1,
 "setup_cmd": "cd /verif/harness && CARGO_NET_OFFLINE=true CARGO_TARGET_DIR=/verif/harness/target cargo build --profile verif -p llgv --bin check",
 "hooks": {"guard": "llguidance_verif", "enable": "no hooks are needed: every observable is public API; checks build /repo unchanged via path dependencies", "baseline_off_cmd": "cd /repo && cargo test --workspace --no-fail-fast --offline", "source_commits": [], "add_only": True},
 "engines": [{"name": "llgv", "path": "harness/llgv", "serves_properties": sorted(CHECKS), "kind_free_text": "Rust harness: proptest strategies + independent reference oracles, sharded runner with shrinking, replay files and known-finding signatures"}],
 "checks": [], "notes": "./run.sh <Cxx> quick|thorough|replay <file>; exit 0 held / 1 VIOLATION / 2 infrastructure. Repository fix commits: see known_findings.json (status fixed).",
 "not_applicable": []}
for pid in ALL:
    if pid in CHECKS:
        text, note, tech = CHECKS[pid]
        m["checks"].append({"property_id": pid, "quick_cmd": f"./run.sh {pid} quick", "thorough_cmd": f"./run.sh {pid} thorough", "evidence_file": f"/verif/evidence/{pid}.json", "replay_cmd_template": f"./run.sh {pid} replay {{path}}", "engine": "llgv", "level_claimed": {"category": "exploration", "text": text, "design_ref": REF[pid]}, "level_note": note, "technique": tech})
    else:
        m["not_applicable"].append({"property_id": pid, "reason": NA.get(pid, "check not built yet (work in progress; planned per DESIGN.md §5)")})
json.dump(m, open("/verif/MANIFEST.json", "w"), indent=1)
print("claimed:", sorted(CHECKS))
