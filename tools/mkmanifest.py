#!/usr/bin/env python3
"""Regenerates /verif/MANIFEST.json from the table below (single source of truth)."""
import json
CHECKS = {
 "C01": ("Generated (grammar, vocabulary, mask-walk) cases; at every visited state every token id is compared three ways (mask bit, validate_tokens, consume_token on a clone) plus validate-vs-commit on spliced token sequences; failures shrink to a replay file. Sampling, not proof: histories are random walks.",
         "trusts proptest, the harness vocabulary builder and Matcher::clone being a faithful copy (checked separately by C14)",
         "property-based testing: full-vocabulary differential (mask vs validate vs commit) over generated grammars, vocabularies and mask walks"),
 "C04": ("Generated regex ASTs (classes across UTF-8 length boundaries, &, ~, {m,n}, (?i), substring) rendered three ways; engine masks, accepting flags and complete-string verdicts are compared with an independent reference DFA (own Thompson/subset/product construction) on a BFS over the reference's states and on sampled members / one-edit neighbours.",
         "trusts the reference DFA (unit-tested against the regex crate on the &/~-free subset and against char::encode_utf8 on boundary code points); byte 0xFF excluded",
         "property-based testing: differential against an independent reference automaton"),
 "C05": ("Generated reduced CFGs (non-confusable terminals; recursion kinds, nullable chains, ambiguity, {m,n}) and parametric templates; all viable prefixes are enumerated breadth-first up to a node budget and every token's mask bit, the accepting flag, EOS and complete-string verdicts are compared with an independent fix-point Earley chart over bytes.",
         "trusts the reference chart recogniser and parameter evaluator (unit-tested on permutations, Dyck, bounded repetition)",
         "property-based testing: bounded-exhaustive differential against an independent reference recogniser"),
 "C11": ("Generated histories of commits, rollbacks, resets and read-only queries on a live engine; at explicit check points every observable (mask words, accepting, forced bytes, stop status, validate results) is compared with a freshly built engine that replayed only the net tokens; mask twice / invalidate+mask are compared bitwise.",
         "the model is the engine itself on a fresh instance (relational oracle): it detects traces of earlier queries, not language errors",
         "stateful property-based testing (operation sequences + fresh-replay model)"),
 "C12": ("Same interpreter as C11 with histories weighted towards rollback(k) for all k, EOS commits, completion and reset; after any history the live engine must be indistinguishable (all observables and validate on continuations) from a fresh engine that saw only the net tokens.",
         "relational oracle (fresh replay); captures are not compared",
         "stateful property-based testing (operation sequences + fresh-replay model)"),
}
REF = {k: "DESIGN.md §5 " + k for k in CHECKS}
ALL = [f"C{i:02d}" for i in range(1, 21)]
NA = {}
m = {"version": 1,
 "setup_cmd": "cd /verif/harness && CARGO_NET_OFFLINE=true CARGO_TARGET_DIR=/verif/harness/target cargo build --profile verif -p llgv --bin check",
 "hooks": {"guard": "llguidance_verif", "enable": "no hooks are needed: every observable is public API; checks build /repo unchanged via path dependencies", "baseline_off_cmd": "cd /repo && cargo test --workspace --no-fail-fast --offline", "source_commits": [], "add_only": True},
 "engines": [{"name": "llgv", "path": "harness/llgv", "serves_properties": sorted(CHECKS), "kind_free_text": "Rust harness: proptest strategies + independent reference oracles, sharded runner with shrinking, replay files and known-finding signatures"}],
 "checks": [], "notes": "./run.sh <Cxx> quick|thorough|replay <file>; exit 0 held / 1 VIOLATION / 2 infrastructure. Repository fix commits: see known_findings.json (status fixed).",
 "not_applicable": []}
for pid in ALL:
    if pid in CHECKS:
        text, note, tech = CHECKS[pid]
        m["checks"].append({"property_id": pid, "quick_cmd": f"./run.sh {pid} quick", "thorough_cmd": f"./run.sh {pid} thorough", "evidence_file": f"/verif/evidence/{pid}.json", "replay_cmd_template": f"./run.sh {pid} replay {{path}}", "engine": "llgv", "level_claimed": {"category": "exploration", "text": text, "design_ref": REF[pid]}, "level_note": note, "technique": tech})
    else:
        m["not_applicable"].append({"property_id": pid, "reason": NA.get(pid, "check not built yet (work in progress; planned per DESIGN.md §5)")})
json.dump(m, open("/verif/MANIFEST.json", "w"), indent=1)
print("claimed:", sorted(CHECKS))
