#!/usr/bin/env python3
"""tools/mutant_prompt.py <Cxx> <worktree> : print the brief given to a sub-agent that seeds a change.
The brief contains only the property text (from properties.jsonl), the worktree path and one-line summaries
of changes seeded earlier against the same property (so that a new mechanism is chosen) - nothing about /verif."""
import json, sys, glob, os

pid, wt = sys.argv[1], sys.argv[2]
prop = None
for l in open('/verif/properties.jsonl'):
    p = json.loads(l)
    if p['id'] == pid:
        prop = p
earlier = []
for m in sorted(glob.glob('/verif/seeded/*/meta.json')):
    j = json.load(open(m))
    if j.get('property') == pid:
        earlier.append('- ' + j.get('summary', '')[:300])

print(f"""You are helping to evaluate a test suite by mutation. Work ONLY inside the git worktree `{wt}` (a checkout of the
Rust project guidance-ai/llguidance, a constrained-decoding engine). Do not read or write anything under /verif or /repo,
and do not use the network (there is none; always pass `--offline` to cargo and set CARGO_NET_OFFLINE=true;
use CARGO_TARGET_DIR={wt}/target).

Here is a semantic property that users of the library rely on:

ID: {prop['id']}
TITLE: {prop['title']}
STATEMENT: {prop['statement']}
QUANTIFIER: {prop['quantifier']['text']}
WHY EXISTING TESTS CANNOT SETTLE IT: {prop['why_tests_cant']}
CODE ANCHORS: {json.dumps(prop['anchors'], indent=1)}

Your task: write ONE small, realistic change to the library source (the kind of slip a maintainer could make during a
refactoring or an optimisation: a dropped guard, an off-by-one, a cache key missing one component, a stale field, two sites that
each look fine alone) that BREAKS this property, while the project still compiles and its existing offline test suite still passes.

Requirements:
1. The change must need something SPECIFIC to manifest: an unusual input, a multi-step sequence of API calls, a particular
   vocabulary shape, a particular numeric magnitude, two cooperating code sites ... It must NOT be exposed at once by ordinary
   use (e.g. not "every mask is wrong"). Prefer a corner that is plausible in real use but that a quick random test would
   have to be built to reach.
2. It must differ in mechanism from these earlier seeded changes for the same property:
{chr(10).join(earlier) if earlier else '- (none)'}
3. Write a demonstration as an integration test `{wt}/parser/tests/seeded_demo.rs` (or `{wt}/toktrie/tests/seeded_demo.rs` /
   `{wt}/toktrie_hf_tokenizers/tests/seeded_demo.rs` if the change is in that crate) that uses only the public API, builds its own small vocabulary offline
   (e.g. `toktrie::TokTrie::from(&TokRxInfo::new(n, eos), &words)` with an own `TokenizerEnv`, or
   `ApproximateTokEnv::single_byte_env()`), and FAILS with your change and PASSES without it. No HuggingFace downloads.
   The demonstration must assert exactly what the property states (not some stronger expectation).
4. Verify all of this yourself:
   a. without the change: the demo passes  (`cargo test --offline -p llguidance --test seeded_demo`)
   b. with the change: the demo fails
   c. with the change: the offline suites still pass:
      `cargo test --offline -p toktrie -p toktrie_hf_tokenizers --no-fail-fast` and `cargo test --offline -p llguidance --lib`
      (the integration tests under parser/tests other than yours need downloaded tokenizers and fail offline regardless; ignore them).
5. Leave the worktree with the change APPLIED (uncommitted) and the demo file present, and write `{wt}/seeded_meta.json` with keys:
   "property" ("{pid}"), "summary" (what the change does, 2-4 sentences), "needs_to_manifest" (what specific input / sequence /
   vocabulary is needed and why ordinary use does not expose it), "files_changed", "verified" (the three booleans
   offline_tests_pass_with_change, demo_fails_with_change, demo_passes_without_change).

If while reading the code you notice a place where the UNCHANGED code already violates the property (a genuine defect), mention it
at the end of your final report with the concrete failing input - but your deliverable is the seeded change.

Keep the change small (ideally 1-10 lines). Final report: the diff, the demo command and its results with/without the change.""")
