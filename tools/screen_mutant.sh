#!/bin/bash
# tools/screen_mutant.sh <patch.diff> <Cxx> [<Cxx>...]
# Development aid: screen a seeded change WITHOUT touching /repo, so several can run side by side and /repo stays
# usable.  Makes a scratch worktree of /repo's HEAD with the patch applied and a scratch copy of /verif's committed
# AND working files whose harness points at that worktree (own target dir), runs the quick checks there, prints
# "<Cxx> caught|missed|infra", and removes everything.  The registered protocol (tools/try_mutant.sh: apply to /repo,
# run ./run.sh, revert) gives the same verdict; this script only exists to save wall-clock time.
patch="$(readlink -f "$1")"; shift
tag=$(echo "$patch" | md5sum | cut -c1-8)
root=/tmp/scr/$tag
rm -rf $root; mkdir -p $root
git -C /repo worktree add --detach $root/repo HEAD -q || exit 2
cleanup() { git -C /repo worktree remove --force $root/repo 2>/dev/null; rm -rf $root; }
trap cleanup EXIT
git -C $root/repo apply "$patch" || { echo "patch does not apply"; exit 2; }
mkdir -p $root/verif
rsync -a --exclude harness/target --exclude .git --exclude seeded --exclude evidence /verif/ $root/verif/
mkdir -p $root/verif/evidence
sed -i "s|/repo/|$root/repo/|g" $root/verif/harness/llgv/Cargo.toml $root/verif/harness/fuzz/Cargo.toml
# warm start: reuse the dependency artefacts that do not depend on the engine
mkdir -p $root/verif/harness/target
cp -a /verif/harness/target/verif $root/verif/harness/target/ 2>/dev/null
cd $root/verif
for c in "$@"; do
  out=$(VERIF_SEED=${VERIF_SEED:-0} timeout 2400 ./run.sh $c quick 2>&1); rc=$?
  if [ $rc -eq 1 ]; then echo "$c caught: $(echo "$out" | grep -m1 'key=' | cut -c1-300)";
  elif [ $rc -eq 0 ]; then echo "$c missed ($(echo "$out" | tail -1 | cut -c1-160))";
  else echo "$c infra rc=$rc: $(echo "$out" | tail -3 | cut -c1-300)"; fi
done
