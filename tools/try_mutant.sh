#!/bin/bash
# tools/try_mutant.sh <patch.diff> <Cxx> [<Cxx>...]  : apply a seeded change to /repo, run the quick checks, revert.
# prints one line per check: "<Cxx> caught|missed|infra"
patch="$1"; shift
cd /repo || exit 2
if [ -n "$(git status --porcelain)" ]; then echo "repo not clean"; exit 2; fi
git apply "$patch" || { echo "patch does not apply"; exit 2; }
trap 'git -C /repo checkout -- . ; git -C /repo clean -fdq parser/tests toktrie/tests 2>/dev/null' EXIT
cd /verif
for c in "$@"; do
  out=$(VERIF_SEED=${VERIF_SEED:-0} timeout 1500 ./run.sh $c quick 2>&1); rc=$?
  if [ $rc -eq 1 ]; then echo "$c caught: $(echo "$out" | grep -m1 'key=' | cut -c1-300)";
  elif [ $rc -eq 0 ]; then echo "$c missed ($(echo "$out" | tail -1 | cut -c1-120))";
  else echo "$c infra rc=$rc: $(echo "$out" | tail -2 | cut -c1-200)"; fi
  rm -f /verif/replays/$c/violation-*.json
done
