#!/usr/bin/env python3
"""Validates MANIFEST.json and evidence/*.json against the schemas in /root/.vp."""
import json, sys, glob
import jsonschema
ok = True
ms = json.load(open('/root/.vp/MANIFEST.schema.json'))
es = json.load(open('/root/.vp/EVIDENCE.schema.json'))
m = json.load(open('/verif/MANIFEST.json'))
try:
    jsonschema.validate(m, ms); print("MANIFEST ok")
except Exception as e:
    ok = False; print("MANIFEST INVALID", e)
claimed = {c['property_id'] for c in m['checks']}
na = {c['property_id'] for c in m.get('not_applicable', [])}
allp = {json.loads(l)['id'] for l in open('/verif/properties.jsonl')}
if claimed & na: ok=False; print("both claimed and n/a:", claimed & na)
if allp - claimed - na: ok=False; print("unaccounted:", allp - claimed - na)
for f in sorted(glob.glob('/verif/evidence/*.json')):
    try:
        jsonschema.validate(json.load(open(f)), es); print(f, "ok")
    except Exception as e:
        ok = False; print(f, "INVALID", str(e)[:300])
sys.exit(0 if ok else 1)
