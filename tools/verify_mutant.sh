#!/bin/bash
# tools/verify_mutant.sh <id> <worktree> : confirm a sub-agent's seeded change independently, then store it under /verif/seeded/<id>/.
#   1. demo fails with the change   2. offline suites pass with the change   3. demo passes without the change
# The worktree is left as found (change applied).  Prints "VERIFIED <id>" or "REJECTED <id>: why".
id="$1"; wt="$2"
cd "$wt" || exit 2
export CARGO_NET_OFFLINE=true CARGO_TARGET_DIR="$wt/target"
demo=$(git status --porcelain | grep -o '[a-z_]*/tests/seeded_demo.rs' | head -1)
[ -z "$demo" ] && { echo "REJECTED $id: no seeded_demo.rs"; exit 1; }
crate_dir=$(echo "$demo" | cut -d/ -f1)
pkg=llguidance; [ "$crate_dir" = "toktrie" ] && pkg=toktrie; [ "$crate_dir" = "toktrie_hf_tokenizers" ] && pkg=toktrie_hf_tokenizers
git diff -- . ':(exclude)*/tests/seeded_demo.rs' > /tmp/mut/$id.patch
[ -s /tmp/mut/$id.patch ] || { echo "REJECTED $id: empty patch"; exit 1; }
democmd="cargo test --offline -p $pkg --test seeded_demo"
$democmd > /tmp/mut/$id.with.log 2>&1; rc_with=$?
mv "$demo" /tmp/mut/$id.demo.rs   # the demonstration is not part of the existing suite
cargo test --offline -p toktrie -p toktrie_hf_tokenizers --no-fail-fast > /tmp/mut/$id.suite.log 2>&1; rc_s1=$?
cargo test --offline -p llguidance --lib >> /tmp/mut/$id.suite.log 2>&1; rc_s2=$?
mv /tmp/mut/$id.demo.rs "$demo"
git apply -R /tmp/mut/$id.patch || { echo "REJECTED $id: cannot reverse patch"; exit 1; }
$democmd > /tmp/mut/$id.without.log 2>&1; rc_without=$?
git apply /tmp/mut/$id.patch
npass=$(grep -h "test result" /tmp/mut/$id.suite.log | sed 's/.*ok\. \([0-9]*\) passed.*/\1/' | paste -sd+ | bc)
if [ $rc_with -ne 0 ] && [ $rc_without -eq 0 ] && [ $rc_s1 -eq 0 ] && [ $rc_s2 -eq 0 ]; then
  d=/verif/seeded/$id; mkdir -p $d
  cp /tmp/mut/$id.patch $d/patch.diff; cp "$demo" $d/demo.rs
  echo "cd <worktree> && CARGO_NET_OFFLINE=true CARGO_TARGET_DIR=<worktree>/target $democmd   (demo.rs placed at $demo)" > $d/demo_cmd.txt
  python3 - "$id" "$wt" "$npass" <<'EOF'
import json,sys
id,wt,npass=sys.argv[1:4]
m=json.load(open(wt+'/seeded_meta.json'))
m['id']=id
m['confirmed_by_me']={"demo_fails_with_change":True,"demo_passes_without_change":True,
  "offline_suites":f"{npass} tests ok, 0 failed with the change (toktrie, toktrie_hf_tokenizers, llguidance --lib)",
  "how":"tools/verify_mutant.sh: run the demo with the change (non-zero exit), run the offline suites with the change, reverse the patch (git apply -R), run the demo again (exit 0), re-apply",
  "worktree":wt+" (removed afterwards)"}
json.dump(m,open(f'/verif/seeded/{id}/meta.json','w'),indent=1)
EOF
  echo "VERIFIED $id (with=$rc_with without=$rc_without suites=$rc_s1/$rc_s2 passed=$npass)"
else
  echo "REJECTED $id: demo_with_change=$rc_with demo_without=$rc_without suites=$rc_s1/$rc_s2"; exit 1
fi
